#!/bin/bash
# Link the snoopyctl action objects of the current /repo tree (asan-ts build) with the ctl harness.
set -euo pipefail
VERIF=$(cd "$(dirname "$0")/.." && pwd)
LIBDIR=$("$VERIF/bin/build_variant.sh" asan-ts)
OUT=$LIBDIR/simctl
B=$VERIF/build; mkdir -p "$B"
exec 8>"$B/.lock.ctl"; flock 8
if [ ! -x "$OUT" ] || [ "$VERIF/sim/ctl_main.cpp" -nt "$OUT" ] || [ "$VERIF/sim/json.hpp" -nt "$OUT" ] || [ "$VERIF/sim/sim.hpp" -nt "$OUT" ]; then
  WRAPS=""
  for s in fopen fdopen fileno open open64 mkstemp write read close fsync fdatasync rename unlink access stat lstat fstat chmod fchmod fchown getenv exit; do WRAPS="$WRAPS -Wl,--wrap=$s"; done
  g++ -std=c++17 -g -O1 -fno-omit-frame-pointer -Wall -Wextra -Wno-unused-parameter -Wno-missing-field-initializers -Wno-clobbered -fsanitize=address,undefined \
      -o "$OUT.tmp.$$" "$VERIF/sim/ctl_main.cpp" "$LIBDIR"/cli/action-enable.o "$LIBDIR"/cli/action-disable.o "$LIBDIR"/cli/action-status.o "$LIBDIR"/cli/cli-subroutines.o "$LIBDIR"/cli/libsnoopy-utils.a \
      $WRAPS -ldl
  mv "$OUT.tmp.$$" "$OUT"
fi
echo "$OUT"
