#!/bin/bash
# Runs every registered check of MANIFEST.json (quick or thorough) and prints one line per check.
cd "$(dirname "$0")/.."
TIER=${1:-quick}; rc=0
for id in $(python3 -c "import json;print(' '.join(c['property_id'] for c in json.load(open('MANIFEST.json'))['checks']))"); do
  s=$(date +%s); out=$(bin/check $id $TIER 2>&1); code=$?; e=$(date +%s)
  echo "$id exit=$code $((e-s))s $(echo "$out" | grep -E "^$id $TIER" | cut -c1-160)"
  echo "$out" | grep -E "^VIOLATION|^KNOWN-FINDING|^HARNESS" | cut -c1-200
  [ $code -ne 0 ] && rc=1
done
exit $rc
