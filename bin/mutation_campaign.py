#!/usr/bin/env python3
"""mutation_campaign.py <out dir> [--seed N] [--max M] [--hours H] [--only-variant V]

Sensitivity campaign with machine-made first-order mutants (DESIGN 13d). For every sampled (file, line, operator) site of the
sources that end up in libsnoopy.so or in snoopyctl's enable/disable path, the mutant is applied to a scratch copy of /repo
(never to /repo itself), the quick checks are run against it until the first one reports a violation, and one JSON line is
appended to <out dir>/results.jsonl:  killed (which check, which class) | survived | stillborn (does not compile).
Survivors are afterwards run through the repository's own test suite (bin/baseline_off.sh on the scratch copy), because only a
mutant that the suite accepts as well is a miss that matters; their diffs are stored under <out dir>/survivors/.
The campaign is resumable: sites already present in results.jsonl are skipped."""
import glob, hashlib, json, os, random, re, shutil, subprocess, sys, tempfile, time
VERIF = os.path.dirname(os.path.dirname(os.path.abspath(__file__)))
REPO = os.environ.get("SNOOPY_REPO", "/repo")

args = sys.argv[1:]
out = os.path.abspath(args[0])
def opt(name, default):
    return type(default)(args[args.index(name) + 1]) if name in args else default
SEED, MAXN, HOURS = opt("--seed", 1), opt("--max", 100000), opt("--hours", 6.0)
ONLY_VARIANT = opt("--only-variant", "")
os.makedirs(out + "/survivors", exist_ok=True)

LIB_FILES = sorted(set(glob.glob(REPO + "/src/*.c") + glob.glob(REPO + "/src/datasource/*.c") + glob.glob(REPO + "/src/filter/*.c") + glob.glob(REPO + "/src/output/*.c") +
                       glob.glob(REPO + "/src/util/*.c") + glob.glob(REPO + "/src/action/*.c") + [REPO + "/src/entrypoint/execve-wrapper.c", REPO + "/lib/inih/src/ini.c"]))
LIB_FILES = [f for f in LIB_FILES if not re.search(r"(noop|failure|snoopy_configure_command|snoopy_version|test)[^/]*\.c$", f) and "/entrypoint/test" not in f]
CTL_FILES = [REPO + "/src/cli/action-enable.c", REPO + "/src/cli/action-disable.c", REPO + "/src/cli/cli-subroutines.c"]
LIB_CHECKS = ["C04", "C05", "C12", "C07", "C02", "C03", "C01", "C06", "C08", "C11", "C16", "C14", "C15", "C17", "C09", "C10"]
CTL_CHECKS = ["C18", "C19", "C20"]

OPS = [
    ("rel", [(r"<=", "<"), (r">=", ">"), (r"(?<![<>=!-])<(?![<=])", "<="), (r"(?<![<>=!-])>(?![>=])", ">="), (r"==", "!="), (r"!=", "==")]),
    ("logic", [(r"&&", "||"), (r"\|\|", "&&")]),
    ("arith", [(r"\+ ?1\b", ""), (r"- ?1\b", ""), (r"\+ ?1\b", "+ 2"), (r"- ?1\b", "+ 1"), (r"\+ ?2\b", "+ 1")]),
    ("const", [(r"\bSNOOPY_TRUE\b", "SNOOPY_FALSE"), (r"\bSNOOPY_FALSE\b", "SNOOPY_TRUE"), (r"\bSNOOPY_FILTER_PASS\b", "SNOOPY_FILTER_DROP"), (r"\bSNOOPY_FILTER_DROP\b", "SNOOPY_FILTER_PASS"),
               (r"\breturn 0;", "return 1;"), (r"\breturn -1;", "return 0;"), (r"\breturn NULL;", "return \"\";"), (r"= 0;", "= 1;"), (r"= NULL;", "= (void *) 1;")]),
    ("delstmt", [(r"^(\s*)(free|fclose|close|closelog|endutent|pthread_mutex_unlock|pthread_mutex_lock|snoopy_\w+|memset|strcpy|strncpy|va_end)\s*\(.*\);\s*$", r"\1;")]),
    ("negcond", [(r"\bif \(", "if (!("), ]),
]


def code_lines(path):
    """(line number, text) of lines that are code: outside comments, not preprocessor, not blank, not pure declarations of prototypes"""
    res, in_c = [], False
    for i, l in enumerate(open(path, errors="replace").read().split("\n")):
        s = l.strip()
        if in_c:
            if "*/" in s:
                in_c = False
            continue
        if s.startswith("/*"):
            if "*/" not in s:
                in_c = True
            continue
        if not s or s.startswith("//") or s.startswith("#") or s.startswith("*"):
            continue
        res.append((i, l))
    return res


def sites():
    out_sites = []
    for f in LIB_FILES + CTL_FILES:
        for ln, text in code_lines(f):
            code = text.split("//")[0]
            if '"' in code and re.search(r'"[^"]*(<|>|==|&&|\|\||\+ ?1|- ?1)[^"]*"', code):
                continue   # operators inside string literals
            for opname, pats in OPS:
                for k, (pat, rep) in enumerate(pats):
                    for m in re.finditer(pat, code):
                        if opname == "negcond":
                            # if (X) {  ->  if (!(X)) {   only for single-line conditions
                            mm = re.match(r"^(\s*(?:\} else )?if \()(.*)(\)\s*\{\s*)$", code)
                            if not mm:
                                continue
                            new = mm.group(1) + "!(" + mm.group(2) + ")" + mm.group(3)
                        else:
                            new = code[:m.start()] + m.expand(rep) + code[m.end():]
                        if new != code:
                            out_sites.append({"file": os.path.relpath(f, REPO), "line": ln, "op": opname + str(k), "col": m.start(), "old": text, "new": new + (text[len(code):] if opname != "delstmt" else "")})
    return out_sites


def site_id(s):
    return hashlib.sha1(("%s:%d:%s:%d" % (s["file"], s["line"], s["op"], s["col"])).encode()).hexdigest()[:12]


def run(cmd, env=None, timeout=3600):
    p = subprocess.run(cmd, stdout=subprocess.PIPE, stderr=subprocess.STDOUT, text=True, env=env, timeout=timeout)
    return p.returncode, p.stdout


all_sites = sites()
random.Random(SEED).shuffle(all_sites)
done = set()
if os.path.exists(out + "/results.jsonl"):
    for l in open(out + "/results.jsonl"):
        try:
            done.add(json.loads(l)["id"])
        except Exception:
            pass
scr = tempfile.mkdtemp(prefix="snoopy-verif-mutcamp.", dir="/var/tmp")
try:
    subprocess.check_call(["rsync", "-a", "--exclude", ".git", "--exclude", "tests/*/*.out", REPO + "/", scr + "/repo/"])
    t_end = time.time() + HOURS * 3600
    n = 0
    print("%d candidate sites, %d already done" % (len(all_sites), len(done)), flush=True)
    for s in all_sites:
        if n >= MAXN or time.time() > t_end:
            break
        sid = site_id(s)
        if sid in done:
            continue
        n += 1
        path = os.path.join(scr, "repo", s["file"])
        orig = open(path, errors="surrogateescape").read()
        lines = orig.split("\n")
        if lines[s["line"]] != s["old"]:
            continue
        lines[s["line"]] = s["new"]
        open(path, "w", errors="surrogateescape").write("\n".join(lines))
        diff = subprocess.run(["diff", "-u", "--label", "a/" + s["file"], "--label", "b/" + s["file"], os.path.join(REPO, s["file"]), path], stdout=subprocess.PIPE, text=True).stdout
        env = dict(os.environ, SNOOPY_REPO=scr + "/repo", VERIF_OUT=scr + "/out")
        if ONLY_VARIANT:
            env["VERIF_ONLY_VARIANT"] = ONLY_VARIANT
        res = {"id": sid, "file": s["file"], "line": s["line"] + 1, "op": s["op"], "old": s["old"].strip(), "new": s["new"].strip(), "status": "survived", "checks_run": []}
        t0 = time.time()
        for c in (CTL_CHECKS if s["file"].startswith("src/cli/") else LIB_CHECKS):
            rc, o = run([VERIF + "/bin/check", c, "quick"], env=env)
            res["checks_run"].append(c)
            if rc == 2 and "build of variant" in o:
                res["status"] = "stillborn"
                break
            if rc == 1:
                m = re.search(r"(?m)^  class=(\S+)", o) or re.search(r"class (\S+)", o)
                res["status"] = "killed"; res["by"] = c; res["class"] = m.group(1)[:120] if m else "?"
                break
            if rc != 0:
                res["status"] = "harness-problem"; res["by"] = c; res["detail"] = o[-400:]
                break
        res["wall_s"] = round(time.time() - t0, 1)
        if res["status"] == "survived":
            open(os.path.join(out, "survivors", sid + ".diff"), "w").write(diff)
            # does the repository's own suite accept it?
            rc, o = run([VERIF + "/bin/baseline_off.sh"], env=dict(os.environ, SNOOPY_REPO=scr + "/repo"))
            res["suite"] = "passes" if rc == 0 else "fails"
            res["suite_detail"] = o.strip().splitlines()[-1][:200] if o.strip() else ""
        open(path, "w", errors="surrogateescape").write(orig)
        shutil.rmtree(scr + "/out", ignore_errors=True)
        open(out + "/results.jsonl", "a").write(json.dumps(res) + "\n")
        print("%s %-9s %s:%d %s -> %s%s" % (sid, res["status"], res["file"], res["line"], res["old"][:50], res["new"][:50], (" [" + res.get("by", "") + " " + res.get("class", "") + "]") if res["status"] == "killed" else (" suite " + res.get("suite", "") if res["status"] == "survived" else "")), flush=True)
finally:
    shutil.rmtree(scr, ignore_errors=True)
