#!/usr/bin/env python3
"""Conformance of the simulated OS with the real one (DESIGN 6): the production library (plain build of the current tree,
same compiled-in config path /simroot/etc/snoopy.ini) runs for real under strace with a real /simroot/etc/snoopy.ini,
and the sequence of output-related system calls between the probe's marker and the real execve is compared with the
history of the simulator for the same configuration. /simroot is created for the duration of the script and removed."""
import json, os, re, shutil, subprocess, sys, tempfile
VERIF = os.path.dirname(os.path.dirname(os.path.abspath(__file__)))
libdir = subprocess.run([VERIF + "/bin/build_variant.sh", "plain-ts"], stdout=subprocess.PIPE, text=True).stdout.strip().splitlines()[-1]
simlib = subprocess.run([VERIF + "/bin/build_harness.sh", "asan-ts"], stdout=subprocess.PIPE, stderr=subprocess.DEVNULL, text=True).stdout.strip().splitlines()[-1]
work = tempfile.mkdtemp(prefix="snoopy-verif-conf.", dir="/var/tmp")
probe = work + "/probe"
subprocess.check_call(["gcc", "-O1", "-o", probe, VERIF + "/conformance/probe.c"])
created_simroot = not os.path.exists("/simroot")
os.makedirs("/simroot/etc", exist_ok=True)
os.makedirs(work + "/log", exist_ok=True)

def real_calls(cfg, arg, failing=False):
    if cfg is None:
        if os.path.exists("/simroot/etc/snoopy.ini"): os.unlink("/simroot/etc/snoopy.ini")
    else:
        open("/simroot/etc/snoopy.ini", "w").write(cfg)
    out = work + "/strace.out"
    env = {"LD_PRELOAD": libdir + "/libsnoopy.so", "PATH": "/usr/bin:/bin"}
    if failing: env["PROBE_TARGET"] = "/nonexistent/prog"
    subprocess.run(["strace", "-o", out, "-s", "64", "-e", "trace=openat,open,write,close,socket,connect,sendto,send,execve,fsync,rename", probe, arg], env=env, stdout=subprocess.DEVNULL, stderr=subprocess.DEVNULL, stdin=subprocess.DEVNULL)
    seq, on, fds = [], False, {}
    for l in open(out):
        if "write(999" in l and "BEGIN" in l: on = True; continue
        if not on: continue
        m = re.match(r"execve\(\"([^\"]+)\"", l)
        if m: seq.append(("EXEC",)); break
        m = re.match(r"openat\(AT_FDCWD, \"([^\"]+)\", ([A-Z_|]+)(?:, (\d+))?\)\s*=\s*(-?\d+)", l)
        if m:
            p, fl, fd = m.group(1), m.group(2), int(m.group(4))
            if p.startswith("/proc/") or p.startswith("/etc/") or p.startswith("/usr/") or p.startswith("/lib") or p == "/simroot/etc/snoopy.ini": continue
            fds[fd] = p
            seq.append(("open", p.replace(work, "<W>"), "|".join(sorted(x for x in fl.split("|") if x not in ("O_CLOEXEC","O_LARGEFILE"))), "ok" if fd >= 0 else "fail")); continue
        m = re.match(r"write\((\d+), .*, (\d+)\)\s*=\s*(-?\d+)", l)
        if m and int(m.group(1)) != 999:
            fd = int(m.group(1))
            seq.append(("write", fds.get(fd, "fd%d" % fd).replace(work, "<W>"), int(m.group(2)))); continue
        m = re.match(r"close\((\d+)\)", l)
        if m and int(m.group(1)) in fds:
            seq.append(("close", fds.pop(int(m.group(1))).replace(work, "<W>"))); continue
        m = re.match(r"socket\(([A-Z_]+), ([A-Z_|]+), (\d+)\)\s*=\s*(-?\d+)", l)
        if m: fds[int(m.group(4))] = "<socket>"; seq.append(("socket", m.group(1).replace("AF_LOCAL","AF_UNIX"), "|".join(sorted(m.group(2).split("|"))))); continue
        m = re.match(r"connect\((\d+), \{sa_family=AF_UNIX, sun_path=\"([^\"]*)\"\}, (\d+)\)\s*=\s*(-?\d+)", l)
        if m: seq.append(("connect", m.group(2).replace(work, "<W>"), "ok" if int(m.group(4)) == 0 else "fail")); continue
        m = re.match(r"sendto\((\d+), .*, (\d+), ([A-Z_|0]+), NULL, 0\)\s*=\s*(-?\d+)", l)
        if m: seq.append(("send", int(m.group(2)), "|".join(sorted(m.group(3).split("|"))))); continue
    return seq

FLAGS = {0o1: "O_WRONLY", 0o2: "O_RDWR", 0o100: "O_CREAT", 0o1000: "O_TRUNC", 0o2000: "O_APPEND", 0o200: "O_EXCL"}
def flagstr(n):
    s = [v for k, v in FLAGS.items() if n & k]
    if not (n & 3): s.append("O_RDONLY")
    return "|".join(sorted(s))
SOCK = {1: "SOCK_STREAM", 2: "SOCK_DGRAM", 0o2000000: "SOCK_CLOEXEC", 0o4000: "SOCK_NONBLOCK"}
MSG = {0x40: "MSG_DONTWAIT", 0x4000: "MSG_NOSIGNAL"}

def sim_calls(cfg, arg, files, socks, failing=False):
    plan = json.loads(subprocess.run([simlib, "gen", "C04", "1"], stdout=subprocess.PIPE, env=dict(os.environ, SIM_VARIANT="asan-ts"), text=True).stdout.splitlines()[-1])
    w = plan["world"]
    w.update({"uid": 0, "euid": 0, "gid": 0, "egid": 0, "tty_state": 0, "cwd": "/", "env": ["LD_PRELOAD=x", "PATH=/usr/bin:/bin"], "environ_null": False, "stdout_kind": 2, "has_ctty": False, "disk_free": -1})
    w["files"] = {"/": {"kind": 1}, "/dev": {"kind": 1}, "/dev/null": {"kind": 2}, "/dev/tty": {"kind": 3}, "/simroot": {"kind": 1}, "/simroot/etc": {"kind": 1}, "<W>": {"kind": 1}, "<W>/log": {"kind": 1}}
    w["files"].update(files)
    w["socks"] = socks
    ops = []
    if cfg is not None: ops.append({"op": "SetConfig", "mode": 0, "bytes": cfg.replace(work, "<W>")})
    ops.append({"op": "Exec", "call": {"api": "execve", "path": "/nonexistent/prog" if failing else "/bin/true", "argv": ["true", arg], "envp": ["PATH=/usr/bin:/bin", "K1=v1"], "outcome": {"ret": -1, "errno": 2} if failing else {"success": True}, "faults": []}})
    plan["plan"] = ops; plan["property"] = "C04"
    f = work + "/plan.json"; json.dump(plan, open(f, "w"))
    r = subprocess.run([simlib, "replay", f], stdout=subprocess.PIPE, stderr=subprocess.DEVNULL, env=dict(os.environ, SIM_VARIANT="asan-ts", SIM_FULL="1"), text=True)
    line = json.loads(r.stdout.splitlines()[-1])
    seq, names = [], {}
    for e in line["history"]:
        if e["op"] != 0: continue
        k = e["k"]; s = e.get("s", "")
        if k == "open":
            if s.startswith("/proc/") or s == "/simroot/etc/snoopy.ini" or s.startswith("/etc/"): continue
            names[e["c"]] = s; seq.append(("open", s, flagstr(e["a"]), "ok" if e["ret"] >= 0 else "fail"))
        elif k == "write" and e["a"] in names: seq.append(("write", s, e["b"]))
        elif k == "write" and s in ("<stdout>", "<stderr>"): seq.append(("write", "fd1" if s == "<stdout>" else "fd2", e["b"]))
        elif k == "close" and e["a"] in names: seq.append(("close", names.pop(e["a"])))
        elif k == "close" and s == "<socket>": seq.append(("close", "<socket>"))
        elif k == "socket": seq.append(("socket", "AF_UNIX", "|".join(sorted(v for kk, v in SOCK.items() if (e["b"] & kk) == kk and (kk > 2 or (e["b"] & 0xf) == kk)))))
        elif k == "connect": seq.append(("connect", s, "ok" if e["ret"] == 0 else "fail"))
        elif k == "send": seq.append(("send", e["b"], "|".join(sorted(v for kk, v in MSG.items() if e["c"] & kk)) or "0"))
        elif k == "EXEC": seq.append(("EXEC",)); break
    return seq

logf = work + "/log/out.log"
cases = [
    ("no config file (default: devlog)", None, "a", {}, {}),
    ("file output, short record", "[snoopy]\nmessage_format = %{cmdline}\noutput = file:" + logf + "\n", "a", {}, {}),
    ("file output, 10 000-byte record", "[snoopy]\nmessage_format = %{cmdline}\noutput = file:" + logf + "\nlog_message_max_length = 20000\ndatasource_message_max_length = 20000\n", "x" * 9990, {}, {}),
    ("file output into a missing directory", "[snoopy]\nmessage_format = %{cmdline}\noutput = file:" + work + "/nodir/out.log\n", "a", {}, {}),
    ("stdout (a file here), successful exec", "[snoopy]\nmessage_format = %{cmdline}\noutput = stdout\n", "a", {}, {}),
    ("stderr", "[snoopy]\nmessage_format = %{cmdline}\noutput = stderr\n", "a", {}, {}),
    ("devnull", "[snoopy]\nmessage_format = %{cmdline}\noutput = devnull\n", "a", {}, {}),
    ("socket output, nobody listening", "[snoopy]\nmessage_format = %{cmdline}\noutput = socket:" + work + "/nosock\n", "a", {}, {}),
]
import socket as _socket
_listener = _socket.socket(_socket.AF_UNIX, _socket.SOCK_DGRAM); _listener.bind(work + "/bound.sock")
cases.append(("socket output, datagram socket bound and read", "[snoopy]\nmessage_format = %{cmdline}\noutput = socket:" + work + "/bound.sock\n", "a", {}, {"<W>/bound.sock": {"state": 0, "capacity": 10, "queued": 0}}))
_full = _socket.socket(_socket.AF_UNIX, _socket.SOCK_DGRAM); _full.bind(work + "/full.sock")
_snd = _socket.socket(_socket.AF_UNIX, _socket.SOCK_DGRAM); _snd.setblocking(False); _snd.connect(work + "/full.sock")
try:
    for _ in range(100000): _snd.send(b"x" * 100)
except BlockingIOError:
    pass
cases.append(("socket output, receive queue full and unread", "[snoopy]\nmessage_format = %{cmdline}\noutput = socket:" + work + "/full.sock\n", "a", {}, {"<W>/full.sock": {"state": 0, "capacity": 10, "queued": 10}}))
rep, bad = [], 0
for name, cfg, arg, files, socks in cases:
    for failing in (False, True):
        if os.path.exists(logf): os.unlink(logf)
        real = real_calls(cfg, arg, failing)
        sim = sim_calls(cfg, arg, files, socks, failing)
        # stdout/stderr of the strace'd probe are /dev/null: normalise names
        real = [tuple("fd1" if x == "fd1" else "fd2" if x == "fd2" else x for x in t) for t in real]
        same = real == sim
        bad += 0 if same else 1
        rep.append({"case": name + (" / exec fails" if failing else " / exec succeeds"), "agree": same, "real": real, "simulated": sim})
        print(("AGREE   " if same else "DIFFER  ") + name + (" / exec fails" if failing else " / exec succeeds"))
        if not same:
            print("   real:", real); print("   sim: ", sim)
# ---- snoopyctl: system calls on the preload file, real binary under strace versus the ctl engine's census
simctl = subprocess.run([VERIF + "/bin/build_ctl.sh"], stdout=subprocess.PIPE, stderr=subprocess.DEVNULL, text=True).stdout.strip().splitlines()[-1]
ctlbin = libdir + "/cli/snoopyctl"
def real_ctl(op, initial):
    pre = work + "/ld.so.preload"
    for f in (pre, pre + ".snoopy-tmp"):
        if os.path.exists(f): os.unlink(f)
    if initial is not None: open(pre, "w").write(initial)
    out = work + "/ctl.strace"
    subprocess.run(["strace", "-o", out, "-e", "trace=access,openat,read,write,lseek,close,fsync,fdatasync,rename,unlink,stat,newfstatat,fchmod,fchown,chmod", ctlbin, op],
                   env={"SNOOPY_TEST_LD_SO_PRELOAD_PATH": pre, "SNOOPY_TEST_LIBSNOOPY_SO_PATH": libdir + "/libsnoopy.so", "PATH": "/usr/bin:/bin"}, stdout=subprocess.DEVNULL, stderr=subprocess.DEVNULL)
    seq, fds = [], {}
    for l in open(out):
        m = re.match(r"(\w+)\((.*)\)\s*=\s*(-?\d+)", l)
        if not m: continue
        k, args, ret = m.group(1), m.group(2), int(m.group(3))
        if k == "access" and "libsnoopy.so" in args: seq.append("access")
        elif k == "openat" and "ld.so.preload" in args: fds[ret] = 1; seq.append("open")
        elif k in ("read", "write", "lseek", "close", "fsync", "fdatasync", "fchmod", "fchown") and int(args.split(",")[0].rstrip(")") or -1) in fds:
            if k == "read" and ret == 0: continue          # end-of-file probe of stdio
            seq.append(k)
            if k == "close": fds.pop(int(args.split(",")[0].rstrip(")")))
        elif k == "newfstatat" and "ld.so.preload" in args and "AT_EMPTY_PATH" not in args: seq.append("stat")
        elif k == "rename": seq.append("rename")
        elif k == "unlink" and "ld.so.preload" in args: seq.append("unlink")
    return seq
def sim_ctl(op, initial):
    plan = {"property": "C20", "seed": 0, "engine": "ctl", "variant": "ctl", "initial": initial, "plan": [op], "crash_at": -1, "fault": {"nth": -1, "err": 0, "short": False}, "extra": {}}
    # the census trace is produced by the generator; reuse it through a replay with the trace printed
    f = work + "/ctlplan.json"; json.dump(plan, open(f, "w"))
    r = subprocess.run([simctl, "trace", f], stdout=subprocess.PIPE, text=True)
    return [x for x in r.stdout.split() if x]
for op, initial in (("enable", "/lib/foreign.so\n"), ("enable", None), ("enable", ""), ("disable", "/lib/a.so\n" + libdir + "/libsnoopy.so\n/lib/z.so\n")):
    real = real_ctl(op, initial)
    sim = sim_ctl(op, None if initial is None else initial.replace(libdir + "/libsnoopy.so", "/simroot/lib/libsnoopy.so"))
    # lseek on the read-only stream differs between a real file and a cookie stream (glibc positions them differently);
    # it changes nothing on disk, so crash points around it are equivalent: compared without it
    real = [x for x in real if x != "lseek"]; sim = [x for x in sim if x != "lseek"]
    same = real == sim
    bad += 0 if same else 1
    name = "snoopyctl %s on %r" % (op, initial if initial is None else initial.replace(libdir, "<L>"))
    rep.append({"case": name, "agree": same, "real": real, "simulated": sim})
    print(("AGREE   " if same else "DIFFER  ") + name)
    if not same:
        print("   real:", real); print("   sim: ", sim)
json.dump({"library": "plain-ts build of the current /repo tree", "cases": rep, "disagreements": bad}, open(VERIF + "/conformance/report.json", "w"), indent=1)
shutil.rmtree(work, ignore_errors=True)
if created_simroot: shutil.rmtree("/simroot", ignore_errors=True)
sys.exit(0 if bad == 0 else 1)
