#!/usr/bin/env python3
"""mk_mutant.py <name> <file> <old> <new> [<file> <old> <new> ...]  -> writes mutants/<name>.diff (unified diff against /repo)"""
import sys, difflib
name = sys.argv[1]; args = sys.argv[2:]
out = ""
for i in range(0, len(args), 3):
    f, old, new = args[i], args[i+1], args[i+2]
    old = old.encode().decode('unicode_escape'); new = new.encode().decode('unicode_escape')
    s = open('/repo/' + f).read()
    if s.count(old) < 1:
        sys.exit("pattern not found in %s: %r" % (f, old))
    t = s.replace(old, new, 1)
    out += "".join(difflib.unified_diff(s.splitlines(True), t.splitlines(True), "a/" + f, "b/" + f))
open('/verif/mutants/%s.diff' % name, 'w').write(out)
print("mutants/%s.diff" % name)
