"""Determinism self-check: every seed is run twice, in differently sized worker processes
(16 workers vs 3 workers, so each seed runs after a different history inside its process),
and the normalised history hashes must be identical."""
import json, os, subprocess, sys, time, threading
VERIF = os.path.dirname(os.path.dirname(os.path.abspath(__file__)))
sys.path.insert(0, os.path.join(VERIF, "bin"))
from checkdefs import CHECKS


def run_range(exe, variant, check, lo, hi, out):
    cur = lo
    while cur < hi:
        p = subprocess.Popen([exe, "run", check, str(cur), str(hi), "quick"], stdout=subprocess.PIPE, stderr=subprocess.DEVNULL, env=dict(os.environ, SIM_VARIANT=variant.split("+")[0], LD_BIND_NOW="1", **({"ASAN_OPTIONS": "quarantine_size_mb=0:thread_local_quarantine_size_kb=0"} if variant.endswith("+reuse") else {})))
        last = cur - 1
        for raw in p.stdout:
            try:
                j = json.loads(raw)
            except Exception:
                continue
            if "seed" in j:
                out[j["seed"]] = (j.get("hash"), j.get("violated"), j.get("class"))
                last = j["seed"]
            elif "start" in j:
                last = max(last, j["start"] - 1)
        p.wait()
        if p.returncode == 0:
            break
        cur = max(last + 1, cur + 1) if last >= cur else cur + 1


def sweep(exe, variant, check, lo, n, jobs):
    out = {}
    chunk = (n + jobs - 1) // jobs
    ts = []
    for i in range(jobs):
        a, b = lo + i * chunk, min(lo + n, lo + (i + 1) * chunk)
        if a >= b:
            break
        t = threading.Thread(target=run_range, args=(exe, variant, check, a, b, out))
        t.start()
        ts.append(t)
    for t in ts:
        t.join()
    return out


def determinism(ids):
    from check import build  # noqa
    ids = ids or sorted(CHECKS)
    n = int(os.environ.get("SELFTEST_SEEDS", "2000"))
    bad = 0
    for pid in ids:
        cfg = CHECKS[pid]
        for variant in cfg["variants"]:
            exe = build(variant)
            lo = int(os.environ.get("VERIF_SEED", cfg.get("seed", 20260926))) * 1000 % (2 ** 40) + 7_000_000
            t0 = time.time()
            a = sweep(exe, variant, cfg.get("check", pid), lo, n, 16)
            b = sweep(exe, variant, cfg.get("check", pid), lo, n, 3)
            diff = [s for s in a if s in b and a[s] != b[s]]
            missing = [s for s in range(lo, lo + n) if s not in a or s not in b]
            print("%s %-9s seeds=%d compared=%d divergent=%d missing=%d (%.1fs)" % (pid, variant, n, len(set(a) & set(b)), len(diff), len(missing), time.time() - t0), flush=True)
            for s in diff[:5]:
                print("   seed %d: %s vs %s" % (s, a[s], b[s]))
            bad += len(diff)
    print("DETERMINISM %s" % ("OK" if not bad else "FAILED (%d divergent seeds)" % bad))
    return 0 if not bad else 2
