#!/usr/bin/env python3
"""Regenerates the table of seeded changes in DESIGN.md (section 13a) from seeded/*/meta.json."""
import json, os, re
V = os.path.dirname(os.path.dirname(os.path.abspath(__file__)))
os.chdir(V)
rows = []
for d in sorted(os.listdir('seeded')):
    mp = os.path.join('seeded', d, 'meta.json')
    if not os.path.exists(mp):
        continue
    m = json.load(open(mp))
    patch = open(os.path.join('seeded', d, 'patch.diff')).read()
    files = sorted(set(re.findall(r'^\+\+\+ b/(\S+)', patch, re.M)))
    res = []
    for k, v in m['checks_run']['results'].items():
        res.append("%s: exit %d%s" % (k, v['exit'], (" " + v['classes'][0][:70]) if v.get('classes') else ""))
    own = m['checks_run']['results'].get(m['property'], {})
    status = 'caught' if own.get('exit') == 1 else ('caught by ' + ",".join(k for k, v in m['checks_run']['results'].items() if v['exit'] == 1) if m['detected'] else 'NOT caught')
    rows.append("| %s | %s | %s | %s |" % (d, ", ".join(files), status, "; ".join(res)))
hdr = "| seed | files changed | quick check | result (check: exit, first class) |\n|------|---------------|-------------|-----------------------------------|\n"
s = open('DESIGN.md').read()
a = s.index("| seed | files changed | quick check | result")
b = s.index("\n\nFirst-trial misses and what was strengthened")
open('DESIGN.md', 'w').write(s[:a] + hdr + "\n".join(rows) + s[b:])
print(len(rows), "seeds,", sum('NOT caught' in r for r in rows), "not caught")
