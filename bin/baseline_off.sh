#!/bin/bash
# Runs the repository's own test suite on a scratch copy of /repo's working tree with
# the verification guard OFF (no -DSNOOPY_VERIF_SIM; there are no source hooks anyway)
# and compares the set of passing tests with /root/.vp/BASELINE.json (stable_pass).
set -uo pipefail
REPO=${SNOOPY_REPO:-/repo}
SCR=$(mktemp -d /var/tmp/snoopy-verif-baseline.XXXXXX)
trap 'rm -rf "$SCR"' EXIT
rsync -a --exclude .git --exclude 'tests/*/*.out' "$REPO"/ "$SCR"/ || exit 2
cd "$SCR" || exit 2
{ [ -f Makefile ] && make distclean; [ -x ./configure ] || ./bootstrap.sh; ./configure && make -j16; } >"$SCR/build.log" 2>&1 || { tail -40 "$SCR/build.log"; echo "BASELINE: build failed"; exit 1; }
make -k -j8 check >"$SCR/check.log" 2>&1
python3 - "$SCR" <<'PY'
import sys, json, glob, os, re
scr = sys.argv[1]
passed, failed = set(), set()
for trs in glob.glob(scr + "/tests/**/*.trs", recursive=True):
    name = os.path.relpath(trs[:-4], scr)
    if not name.endswith(".sh"): name += ".sh" if os.path.exists(os.path.join(scr, name + ".sh")) else ""
    txt = open(trs).read()
    m = re.search(r":test-result:\s*(\S+)", txt)
    (passed if m and m.group(1) in ("PASS", "XFAIL") else failed).add(name)
base = json.load(open("/root/.vp/BASELINE.json"))
stable = set(base["stable_pass"])
missing = sorted(stable - passed)
print("BASELINE: %d passed, %d failed; %d of %d stable tests pass" % (len(passed), len(failed), len(stable & passed), len(stable)))
if missing:
    print("BASELINE: stable tests not passing:", missing[:20])
    sys.exit(1)
sys.exit(0)
PY
