#!/opt/veriftools/pyvenv/bin/python
import json, jsonschema, sys, glob
m=json.load(open('/verif/MANIFEST.json')); s=json.load(open('/root/.vp/MANIFEST.schema.json')); jsonschema.validate(m,s); print("manifest valid")
es=json.load(open('/root/.vp/EVIDENCE.schema.json'))
for f in sorted(glob.glob('/verif/evidence/*.json')):
    jsonschema.validate(json.load(open(f)),es); print(f,'valid')
