#!/usr/bin/env python3
"""keep_seed.py <seed id> <worktree dir> <property> [extra checks...]
Confirms the seeded change (bin/confirm_seed.sh), runs the property's quick check (and extra ones) against it in a
scratch copy (bin/try_patch.sh) and stores patch, demonstration and meta.json under /verif/seeded/<seed id>/."""
import json, os, shutil, subprocess, sys, re
VERIF = os.path.dirname(os.path.dirname(os.path.abspath(__file__)))
sid, d, prop = sys.argv[1], sys.argv[2], sys.argv[3]
checks = [prop] + sys.argv[4:]
conf = json.loads(subprocess.run([VERIF + "/bin/confirm_seed.sh", d], stdout=subprocess.PIPE, text=True).stdout.strip().splitlines()[-1])
print("confirm:", conf)
if not conf.get("confirmed"):
    sys.exit("NOT CONFIRMED - not kept")
out = subprocess.run([VERIF + "/bin/try_patch.sh", d + "/seed/patch.diff"] + checks, stdout=subprocess.PIPE, stderr=subprocess.STDOUT, text=True).stdout
print(out)
results = {}
for m in re.finditer(r"--- (\S+) exit=(\d+)", out):
    results[m.group(1)] = {"exit": int(m.group(2))}
cur = None
for line in out.splitlines():
    m = re.match(r"--- (\S+) exit", line)
    if m:
        cur = m.group(1)
    m = re.match(r"\s+class=(\S+)", line)
    if m and cur:
        results[cur].setdefault("classes", []).append(m.group(1))
dst = os.path.join(VERIF, "seeded", sid)
os.makedirs(dst, exist_ok=True)
for f in os.listdir(d + "/seed"):
    p = os.path.join(d, "seed", f)
    if os.path.isfile(p) and os.path.getsize(p) < 200000 and not f.startswith(".") and not f.endswith(".log") and "check-" not in f and "results" not in f:
        shutil.copy(p, dst)
notes = open(d + "/seed/NOTES.md").read() if os.path.exists(d + "/seed/NOTES.md") else ""
props = {json.loads(l)["id"]: json.loads(l) for l in open(VERIF + "/properties.jsonl")}
meta = {
    "seed_id": sid, "property": prop, "property_title": props[prop]["title"],
    "origin": "independent sub-agent given only the property text and its own scratch worktree of /repo (nothing from /verif)",
    "needs_to_manifest": re.sub(r"\s+", " ", (re.search(r"(?is)(what (it|is) (needs|takes|needed)[^\n]*\n.*?)(\n#|\n\*\*|\Z)", notes) or re.search(r"(?s)(.{0,600})", notes)).group(1))[:900],
    "confirmed_by_me": {"command": "bin/confirm_seed.sh " + d, **conf},
    "checks_run": {"command": "bin/try_patch.sh seeded/%s/patch.diff %s" % (sid, " ".join(checks)), "results": results},
    "detected": any(r.get("exit") == 1 for r in results.values()),
}
json.dump(meta, open(os.path.join(dst, "meta.json"), "w"), indent=1)
print("kept in", dst, "detected:", meta["detected"])
