#!/usr/bin/env python3
"""Writes /verif/MANIFEST.json from bin/checkdefs.py (single source of truth)."""
import json, os, sys
VERIF = os.path.dirname(os.path.dirname(os.path.abspath(__file__)))
sys.path.insert(0, os.path.join(VERIF, "bin"))
from checkdefs import CHECKS, NOT_APPLICABLE, MANIFEST_TEXT
checks = []
for pid in sorted(CHECKS):
    c = CHECKS[pid]
    t = MANIFEST_TEXT[pid]
    checks.append({
        "property_id": pid,
        "quick_cmd": "bin/check %s quick" % pid,
        "thorough_cmd": "bin/check %s thorough" % pid,
        "evidence_file": "evidence/%s.json" % pid,
        "replay_cmd_template": "bin/check replay {path}",
        "engine": c.get("engine", "lib"),
        "level_claimed": {"category": c["level"], "text": t["level_text"], "design_ref": t.get("design_ref", "DESIGN.md section 3, " + pid)},
        "level_note": t["level_note"],
        "technique": t.get("technique", "deterministic simulation with fault injection: seeded search over generated worlds, plans, schedules and faults against the hosted production library"),
    })
m = {
    "version": 1,
    "setup_cmd": "bin/setup.sh",
    "hooks": {"guard": "SNOOPY_VERIF_SIM", "enable": "checks build /repo's working tree in a scratch copy with CFLAGS=-DSNOOPY_VERIF_SIM=1 (no source hook exists; every seam is at the dynamic-linking boundary)",
              "baseline_off_cmd": "bin/baseline_off.sh", "source_commits": [], "add_only": True},
    "engines": [
        {"name": "lib", "path": "sim/", "serves_properties": [p for p in sorted(CHECKS) if CHECKS[p].get("engine", "lib") == "lib"],
         "kind_free_text": "production libsnoopy.so hosted in-process under a simulated OS (files, sockets, ids, /proc, tty, clock), seeded scheduler over real parked threads, fault injector, exec recorder, reference model"},
        {"name": "ctl", "path": "sim/ctl_*.cpp", "serves_properties": [p for p in sorted(CHECKS) if CHECKS[p].get("engine") == "ctl"],
         "kind_free_text": "snoopyctl enable/disable/status action objects on the simulated file layer with crash points at every simulated system call"},
    ],
    "checks": checks,
    "not_applicable": NOT_APPLICABLE,
    "notes": "See DESIGN.md. known_findings.txt lists fixed defects and recorded findings; replays/ holds minimised replay files of reported violations.",
}
json.dump(m, open(os.path.join(VERIF, "MANIFEST.json"), "w"), indent=1)
print("MANIFEST.json: %d checks, %d not applicable" % (len(checks), len(NOT_APPLICABLE)))
