#!/bin/bash
# Confirms a seeded change delivered in a scratch worktree <dir> (patch applied and built there):
#   1. with the patch:    make succeeds, the repository's test suite passes as the baseline does, seed/demo.sh FAILS
#   2. without the patch: make succeeds, seed/demo.sh PASSES
# Prints a JSON summary on the last line.
set -uo pipefail
D=$1
cd "$D" || exit 2
git apply --check -R seed/patch.diff 2>/dev/null || { git apply seed/patch.diff || { echo '{"ok":false,"why":"patch state unclear"}'; exit 1; }; }
make -j8 >/tmp/confirm.$$.make1 2>&1; m1=$?
sh seed/demo.sh >/tmp/confirm.$$.demo1 2>&1; d1=$?
make -k -j8 check >/tmp/confirm.$$.check 2>&1
suite=$(python3 - "$D" <<'PY'
import sys, json, glob, os, re
scr = sys.argv[1]
passed = set()
for trs in glob.glob(scr + "/tests/**/*.trs", recursive=True):
    name = os.path.relpath(trs[:-4], scr)
    m = re.search(r":test-result:\s*(\S+)", open(trs).read())
    if m and m.group(1) in ("PASS", "XFAIL"): passed.add(name)
stable = set(json.load(open("/root/.vp/BASELINE.json"))["stable_pass"])
print(len(stable & passed), len(stable))
PY
)
git apply -R seed/patch.diff; make -j8 >/tmp/confirm.$$.make2 2>&1; m2=$?
sh seed/demo.sh >/tmp/confirm.$$.demo2 2>&1; d2=$?
git apply seed/patch.diff; make -j8 >/dev/null 2>&1
set -- $suite
echo "{\"dir\":\"$D\",\"make_with_patch\":$m1,\"demo_with_patch_exit\":$d1,\"suite_stable_passing_with_patch\":$1,\"suite_stable_total\":$2,\"make_without_patch\":$m2,\"demo_without_patch_exit\":$d2,\"confirmed\":$([ $m1 = 0 ] && [ $d1 != 0 ] && [ "$1" = "$2" ] && [ $m2 = 0 ] && [ $d2 = 0 ] && echo true || echo false)}"
rm -f /tmp/confirm.$$.*
