# Per-property configuration of the simulation checks (budgets, variants, evidence wording).
LEVELS = ("exploration", "fault_enumeration")

REAL_STUB = {
    "real": ["all of libsnoopy.so built by the repository's own configure/make from the current working tree (incl. bundled inih)",
             "glibc stdio / string / strftime / localtime_r running on fopencookie streams",
             "snoopyctl action objects (action-enable.o, action-disable.o, cli-subroutines.o, libsnoopy-utils) for C18-C20"],
    "stub": ["kernel file, socket, process, tty and id services", "NSS passwd/group", "utmp", "getlogin_r", "clock",
             "pthread mutex/once used by tsrm.c (replaced by the scheduler's own, to decide and observe blocking)",
             "the real exec (recorder at dlsym(RTLD_NEXT))"],
}

def T(runs, budget):
    return {"runs": runs, "budget_s": budget}

CHECKS = {
    "C01": {
        "variants": ["asan-ts"], "level": "exploration",
        "quick": T(20000, 45), "thorough": T(600000, 600),
        "rule": "one run = generated world + config + 1-3 wrapped execv/execve calls (argv/envp shape classes, every exec outcome, 1/3 with sampled I/O faults); "
                "non-trivial = wrapper entered and recorder reached; distinct = (api, argv/envp shape class, output, filter decision, outcome class, fault yes/no) per call",
        "probes": ["success", "errno_ge_100", "null_argv", "ge_1000_args", "filter_drop", "io_fault_fired"],
    },
    "C04": {
        "variants": ["asan-ts"], "level": "exploration",
        "quick": T(20000, 45), "thorough": T(600000, 600),
        "rule": "one run = generated world + config (every output incl. path templates, facility x level, ident, error_logging, chains) + one exec (success or failure); all sinks watched; "
                "non-trivial = decision and sink determined by the model; distinct = (output, decision, message-length bucket, fd-1 kind, outcome)",
        "probes": ["output_devlog", "output_stdout", "output_stderr", "output_file", "output_socket", "output_devtty", "output_devnull", "drop", "empty_or_none", "success_stdout_buffered", "msg_ge_64k"],
    },
}

NOT_APPLICABLE = [
    {"property_id": "C13", "reason": "quantifies over 2^N compile-time configurations of three preprocessor-guarded tables; a simulated run executes one compiled configuration and the property has no schedule, clock, fault or history in it (DESIGN.md section 4)"},
]
_PENDING = ["C02", "C03", "C05", "C06", "C07", "C08", "C09", "C10", "C11", "C12", "C14", "C15", "C16", "C17", "C18", "C19", "C20"]
for _p in _PENDING:
    if _p not in CHECKS:
        NOT_APPLICABLE.append({"property_id": _p, "reason": "check not built yet in this revision of /verif (planned, see DESIGN.md section 3); not claimed until its machinery is committed"})

_ASSUME = "trusted: the simulated OS (man-page model of files, sockets, ids, /proc, tty, clock), glibc stdio on fopencookie streams, the reference model of DESIGN Appendix A; sampled, not exhaustive"
MANIFEST_TEXT = {
    "C01": {"level_text": "seeded exploration: every run hosts the production execv/execve wrappers and judges the history of each call (exactly one real-exec event, deep-equal path/argv/envp/environ, nothing after it, return value and errno unchanged) over generated argument shapes, configurations, exec outcomes (success and every errno) and sampled I/O faults",
            "level_note": _ASSUME},
    "C04": {"level_text": "seeded exploration against the reference model: all sinks of the simulated OS are watched; exactly one record with the model's framing at the configured sink, handed to the simulated kernel before the EXEC event (bytes left in a stdio buffer at a successful exec count as lost), nothing anywhere else, nothing on drop/empty",
            "level_note": _ASSUME},
}
