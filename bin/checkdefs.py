# Per-property configuration of the simulation checks (budgets, variants, evidence wording).
LEVELS = ("exploration", "fault_enumeration")

REAL_STUB = {
    "real": ["all of libsnoopy.so built by the repository's own configure/make from the current working tree (incl. bundled inih)",
             "glibc stdio / string / strftime / localtime_r running on fopencookie streams",
             "snoopyctl action objects (action-enable.o, action-disable.o, cli-subroutines.o, libsnoopy-utils) for C18-C20"],
    "stub": ["kernel file, socket, process, tty and id services", "NSS passwd/group", "utmp", "getlogin_r", "clock",
             "pthread mutex/once used by tsrm.c (replaced by the scheduler's own, to decide and observe blocking)",
             "the real exec (recorder at dlsym(RTLD_NEXT))"],
}

def T(runs, budget):
    return {"runs": runs, "budget_s": budget}

CHECKS = {
    "C01": {
        "variants": ["asan-ts", "asan-nots"], "variant_share": {"asan-ts": 0.6, "asan-nots": 0.4}, "level": "exploration",
        "quick": T(20000, 45), "thorough": T(600000, 600),
        "rule": "one run = generated world + config + 1-3 wrapped execv/execve calls (argv/envp shape classes, every exec outcome, 1/3 with sampled I/O faults); "
                "non-trivial = wrapper entered and recorder reached; distinct = (api, argv/envp shape class, output, filter decision, outcome class, fault yes/no) per call",
        "probes": ["success", "errno_ge_100", "null_argv", "ge_1000_args", "filter_drop", "io_fault_fired"],
    },
    "C04": {
        "variants": ["asan-ts", "asan-nots"], "variant_share": {"asan-ts": 0.6, "asan-nots": 0.4}, "level": "exploration",
        "quick": T(20000, 45), "thorough": T(600000, 600),
        "rule": "one run = generated world + config (every output incl. path templates, facility x level, ident, error_logging, chains) + one exec (success or failure); all sinks watched; "
                "non-trivial = decision and sink determined by the model; distinct = (output, decision, message-length bucket, fd-1 kind, outcome, token classes of the format, facility|level, ident/error-logging set, sink usable)",
        "probes": ["output_devlog", "output_stdout", "output_stderr", "output_file", "output_socket", "output_devtty", "output_devnull", "drop", "empty_or_none", "success_stdout_buffered", "msg_ge_64k", "fifo_slow_reader"],
    },
}

NOT_APPLICABLE = [
    {"property_id": "C13", "reason": "quantifies over 2^N compile-time configurations of three preprocessor-guarded tables; a simulated run executes one compiled configuration and the property has no schedule, clock, fault or history in it (DESIGN.md section 4)"},
]
_PENDING = ["C02", "C03", "C05", "C06", "C07", "C08", "C09", "C10", "C11", "C12", "C14", "C15", "C16", "C17", "C18", "C19", "C20"]
for _p in _PENDING:
    if _p not in CHECKS:
        NOT_APPLICABLE.append({"property_id": _p, "reason": "check not built yet in this revision of /verif (planned, see DESIGN.md section 3); not claimed until its machinery is committed"})

_ASSUME = "trusted: the simulated OS (man-page model of files, sockets, ids, /proc, tty, clock), glibc stdio on fopencookie streams, the reference model of DESIGN Appendix A; sampled, not exhaustive"
MANIFEST_TEXT = {
    "C01": {"level_text": "seeded exploration: every run hosts the production execv/execve wrappers and judges the history of each call (exactly one real-exec event, deep-equal path/argv/envp/environ, nothing after it, return value and errno unchanged) over generated argument shapes, configurations, exec outcomes (success and every errno) and sampled I/O faults",
            "level_note": _ASSUME},
    "C04": {"level_text": "seeded exploration against the reference model: all sinks of the simulated OS are watched; exactly one record with the model's framing at the configured sink, handed to the simulated kernel before the EXEC event (bytes left in a stdio buffer at a successful exec count as lost), nothing anywhere else, nothing on drop/empty",
            "level_note": _ASSUME},
}

CHECKS.update({
    "C02": {
        "variants": ["asan-ts", "asan-nots", "vg-ts"], "variant_share": {"asan-ts": 1.0, "asan-nots": 1.0, "vg-ts": 0.08}, "level": "exploration", "claims_sanitizer": True,
        "quick": T(50000, 60), "thorough": T(2000000, 900),
        "rule": "one run = generated world + config bytes (structured generator, byte-level mutation of it, or boundary-directed: tag lengths 95..900, message = limit-1/0/+1, output ':' forms, short syslog names, huge numbers, ident/path near their limits, 1 MiB limits, lines around 1024 bytes) + 1-2 wrapped execs under ASan+UBSan in both builds, and an 8 % share of the seeds once more with the uninstrumented library under valgrind memcheck (uninitialised values, which ASan does not see); "
                "oracle = sanitizer report, fatal signal, step cap / watchdog, exec not reached; non-trivial = non-empty config; distinct = (options present, tag-count bucket, boundary probe, env/tty class, size bucket)",
        "probes": ["tag_ge_100", "msg_eq_limit", "environ_null", "limit_1mib", "line_ge_1024", "output_colon", "short_syslog_name", "huge_number", "ident_near_256", "path_near_max", "errlog_at_limit", "login_at_buffer_size", "record_ge_4096", "thread_with_1mib_stack"],
        "assumptions": ["no schedule or fault dimension: seeded generation against a sanitizer oracle inside the simulated OS (weak fit, DESIGN 3/C02)"],
    },
    "C05": {
        "variants": ["asan-ts", "asan-nots"], "variant_share": {"asan-ts": 0.6, "asan-nots": 0.4}, "level": "exploration",
        "quick": T(20000, 45), "thorough": T(600000, 600),
        "rule": "one run = format built from literals, snoopy_literal/env/cmdline/filename tags with values of chosen lengths (value i consists of letter 'a'+i), unknown/empty/unterminated/failing tags, both limits drawn around the produced lengths; record at a file (or devlog ident / path template) compared with the reference expansion when it fits, bounds otherwise; "
                "non-trivial = at least one tag; distinct = (token-class string of the format, binding limit, output)",
        "probes": ["total_eq_logmax", "total_eq_logmax_plus1", "value_eq_dsmax", "value_eq_dsmax_plus1", "unknown", "unterminated", "failing", "ident", "path_template"],
        "assumptions": ["no schedule or fault dimension (weak fit)"],
    },
    "C06": {
        "variants": ["asan-ts", "asan-nots"], "level": "exploration",
        "quick": T(6000, 45), "thorough": T(200000, 600),
        "rule": "one run = history of 2-10 (thorough: 2-30) failing execs in one simulated process, argv shapes NULL / {NULL} / hidden / short / long / thousands, execv and execve mixed, earlier calls may carry I/O faults; every string of call i carries marker i; "
                "non-trivial = at least 2 calls; distinct = shape sequence of the history",
        "probes": ["long_then_short", "null_after_long", "truncation"],
    },
    "C07": {
        "variants": ["asan-ts", "asan-nots"], "variant_share": {"asan-ts": 1.0, "asan-nots": 0.4}, "level": "exploration",
        "quick": T(60000, 60), "thorough": T(400000, 600),
        "rule": "one run = a chain, a seeded permutation and a seeded duplication of it, each logged once in the same world; the first 52416 seeds enumerate all chains of <= 3 elements over a 16-spec alphabet (incl. bare argument-taking names and empty elements) x 12 worlds (3 real uids x tty yes/no x listed ancestor yes/no), later seeds draw chains of 0-20 elements from the grammar in generated worlds; "
                "non-trivial = at least one known filter; distinct = (per-element filter+result string, world class, decision)",
        "probes": ["exhaustive_alphabet", "unknown_between_known", "drop_by_later_element", "empty_elements"],
        "seed": 0,
    },
    "C08": {
        "variants": ["asan-ts"], "level": "exploration",
        "quick": T(30000, 45), "thorough": T(800000, 600),
        "rule": "one run = INI file from the supported grammar (sections, = and : separators, comment lines, inline comments, quotes, BOM, continuation lines, duplicate keys, other sections, unknown keys, CR-LF) with per-option well-formed values, near misses and garbage, numbers 0..10^15 with k/m; "
                "the library's own option-value API (what snoopyctl conf prints) is compared with the reference INI+option model, then either a round trip (reported values written back, reported again) or a logged exec whose record must be the model's; non-trivial = >= 1 [snoopy] option assigned; distinct = (syntax features, output, limit classes, facility.level, roundtrip)",
        "probes": ["duplicate-key", "continuation", "bom", "inline-comment", "quotes", "garbage-bool", "number_ge_2_31", "roundtrip", "other-section", "unknown-key"],
        "assumptions": ["no schedule or fault dimension (weak fit)"],
    },
    "C12": {
        "variants": ["asan-ts"], "level": "exploration",
        "quick": T(20000, 45), "thorough": T(500000, 600),
        "rule": "one run = generated simulated process state (independent real/effective uid/gid, name tables with gaps and with entries of 0.3-70 KB - long member lists, long GECOS fields: the lookup functions answer ERANGE to a buffer that is too small -, working directories up to 6000 bytes, session, ancestor chain, tty none/closed/present with owner, login fallbacks, environment incl. TZ, cwd, host, instant) + two execs whose formats list every data source named in the statement inside <name=...> delimiters; "
                "each text compared with the value derived from the world; distinct = vector of world classes",
        "probes": ["all_ids_distinct", "id_without_name", "no_tty", "ebadf", "deleted_cwd", "tz_non_utc", "secure_exec_mode", "child_of_init", "env_all_at_limit"],
        "assumptions": ["the kernel is a stub: this decides that each data source asks the right question and renders the answer, not that Linux answers correctly"],
    },
    "C14": {
        "variants": ["asan-ts"], "level": "exploration",
        "quick": T(20000, 45), "thorough": T(500000, 600),
        "rule": "one run = real uid from {0, small, ~2^16, 2^31-1, 2^31, 2^32-2} with unrelated effective uid, a list of 1-200 decimal uids with near misses (uid+-1, decimal prefix/suffix, uid*10, the euid) and the uid at a seeded position or absent; only_uid:L, exclude_uid:L and only_root each judged, and only_uid/exclude_uid must disagree; in half of the runs the process then changes its real uid (Mutate) and makes the three calls again; "
                "distinct = (uid class, list-size bucket, match position, uid==euid)",
        "probes": ["uid_ge_2_31", "match_last_of_many", "near_miss_only", "uid_changes_between_calls"],
        "assumptions": ["no schedule or fault dimension (weak fit); the simulated getuid() is what makes 2^32-2 and uid != euid reachable"],
    },
    "C15": {
        "variants": ["asan-ts"], "level": "exploration",
        "quick": T(20000, 45), "thorough": T(500000, 600),
        "rule": "one run = simulated ancestor chain of depth 1-12 with awkward names (spaces, parentheses, 15 bytes, prefixes of each other), optionally an unreadable or vanished /proc/<pid>/stat at depth k, and a list of 1-50 names (duplicates, empty items) containing an ancestor's name, only the process's own name, a prefix/extension near miss, or none; one run in six puts two instances with different lists into one chain, one in six makes a second call after snoopy.ini was rewritten with another list; "
                "distinct = (depth, mode, match position, failure depth)",
        "probes": ["match_deep", "self_only", "unreadable_before_match", "name_with_paren", "seven_digit_pids"],
    },
})
MANIFEST_TEXT.update({
    "C02": {"level_text": "seeded generation of configuration bytes, exec inputs and simulated process states against a sanitizer oracle: the production library runs in-process under AddressSanitizer+UndefinedBehaviorSanitizer in both the thread-safe and the non-thread-safe build; a report, fatal signal, step-cap/watchdog hit or an exec that is never reached is a violation", "level_note": _ASSUME + "; allocation failure and invalid pointers are outside the domain"},
    "C05": {"level_text": "operation-by-operation refinement against the reference expansion (DESIGN A.4) with boundary-directed limits and value lengths; exact equality when the expansion fits, the two length bounds otherwise; also the syslog ident (255) and file path template (PATH_MAX-1)", "level_note": _ASSUME},
    "C06": {"level_text": "seeded histories of calls in one simulated process (both builds): each record equals the model for its own call and never contains the marker of an earlier call; truncated cmdline must be a prefix", "level_note": _ASSUME},
    "C07": {"level_text": "exhaustive for all chains of <= 3 elements over a 16-spec alphabet in 12 worlds, seeded beyond: logged iff every known filter passes in the model, same decision for a permutation and a duplication, no byte at any sink on drop, pass-through intact", "level_note": _ASSUME},
    "C08": {"level_text": "refinement of the library's option-value API and of the logged record against the reference INI/option model over generated files; round trip through the reported values", "level_note": _ASSUME + "; lines beyond the parser's 1023-byte limit belong to C02's domain only"},
    "C12": {"level_text": "every data source named in the statement is compared with the value computed from the simulated process state, over generated states a root test machine is never in (uid != euid != gid != egid, ids without names, any tty owner, any ancestor chain, any instant and TZ)", "level_note": _ASSUME},
    "C14": {"level_text": "pass/drop of only_uid, exclude_uid, only_root compared with exact membership of the simulated real uid, for boundary uids, near-miss lists and unrelated effective uids; complementarity checked directly", "level_note": _ASSUME},
    "C15": {"level_text": "pass/drop of exclude_spawns_of compared with the reference walk over the simulated /proc tree (proper ancestors only, unreadable => pass)", "level_note": _ASSUME},
})
CHECKS.update({
    "C03": {
        "variants": ["asan-ts", "asan-nots"], "variant_share": {"asan-ts": 0.6, "asan-nots": 0.4}, "level": "fault_enumeration", "claims_sanitizer": True,
        "quick": T(40000, 60), "thorough": T(1200000, 900),
        "rule": "seeds come in families of 400: slot 0 is the fault-free census of one wrapped call in a sampled (world, sink state, output, format) scenario; slots 1..n enumerate every single fault = (intercepted call of the census) x (plausible errno set of that call kind, plus short read/write and early EOF); remaining slots are sampled fault pairs; a faulted call that returns to its caller is followed by the same call without the fault (what the failure left behind must not stop the next exec). "
                "Sink states: healthy, directory absent, EACCES, (nearly) full disk, socket path absent / refused / no permission / queue full and unread / stream-type. non-trivial = the fault fired inside the call (or census); distinct = (scenario, fault kind, n-th, errno)",
        "probes": ["census", "pair", "persistent_fault", "queue_full", "eagain_seen", "enospc"],
        "extra_coverage": {"errno_sets": "open: ENOENT EACCES EMFILE ENFILE ENOMEM ELOOP ENOTDIR EISDIR EROFS ENXIO ENOSPC; read: EIO EINTR short eof; write: ENOSPC EIO EDQUOT EFBIG EINTR short; close: EIO ENOSPC; socket: EMFILE ENFILE ENOBUFS EAFNOSUPPORT ENOMEM EACCES; connect: ENOENT ECONNREFUSED EACCES EAGAIN EPROTOTYPE; send: EAGAIN ECONNREFUSED ENOTCONN EMSGSIZE ENOBUFS EPIPE ECONNRESET; stat ttyname_r getcwd gethostname getlogin_r getpwuid_r getgrgid_r getutline_r time gettimeofday: their documented errors"},
    },
    "C16": {
        "variants": ["asan-ts", "asan-nots"], "level": "fault_enumeration",
        "quick": T(24000, 60), "thorough": T(600000, 900),
        "rule": "families of 400 seeds: three of four families = warm-up call + 3 identical calls under the census-driven single-fault enumeration of C03 (error paths), the fourth = a configuration with duplicate and invalid options and 2-40 (thorough: 2-200) fault-free repeats; "
                "snapshots before the call, at EXEC and after return: simulated fd table, real /proc/self/fd, library-attributed live heap (sanitizer malloc/free hooks), environ checksum, cwd, umask, signal mask and dispositions; non-trivial = fault fired or repeat family; distinct = (scenario, fault) or (repeat bucket, config hash)",
        "probes": ["census", "pair", "repeat", "repeat_ge_100", "duplicate_option", "enospc"],
    },
})
MANIFEST_TEXT.update({
    "C03": {"level_text": "fault enumeration: for each sampled scenario every intercepted call of the fault-free census fails once with each errno of its kind's set (plus short/EOF variants), pairs are sampled, and persistent faults (a call kind that keeps failing from its n-th call on) are sampled; invariants per run: real exec reached exactly once with the caller's result delivered, no simulated call that would wait for a peer (send on a full queue with neither O_NONBLOCK nor MSG_DONTWAIT, syslog(), sleep/poll/lock), no SIGPIPE-raising write, step bound 4 x census + 64, no sanitizer abort", "level_note": _ASSUME + "; allocation failure is outside the domain; EPIPE raises no SIGPIPE on AF_UNIX datagram sockets (probed on this kernel)"},
    "C16": {"level_text": "before/at-exec/after snapshots of descriptors (simulated and real), library-attributed live heap, environ, cwd, umask, signal mask and handlers over repeated calls, fault-free and under the single-fault enumeration of C03, in both builds", "level_note": _ASSUME + "; heap attribution = allocations made while the calling thread is inside the library (sanitizer hooks), one warm-up call excluded"},
})
CHECKS.update({
    "C09": {
        "variants": ["tsan-ts", "asan-ts"], "level": "exploration", "claims_sanitizer": True,
        "quick": T(6000, 80), "thorough": T(200000, 900),
        "rule": "one run = Batch of 2-4 caller threads (thorough: 1 in 50 runs 16-64 threads) each making 1-3 failing wrapped execs with distinct markers, under a seeded schedule that decides the running thread at every scheduling point (mutex lock/unlock before and after, pthread_once, every simulated syscall, call entry/exit); policy per run: random walk, PCT with d priority-change points, long park (seeded thread and point), or single-park enumeration (consecutive seeds park thread t at its k-th point for every (t, k) and run the others to completion); then one lone call. "
                "tsan-ts: ThreadSanitizer report with a libsnoopy frame (scheduler hand-off is invisible to TSan); both: deadlock, record content per thread, foreign markers, snoopy_threads in [1,n] during the batch and 1 afterwards. non-trivial = at least two threads inside the library at overlapping times; distinct = hash of the schedule trace",
        "probes": ["long_park", "park_enumeration", "pct_d1", "pct_d2", "blocked_on_mutex", "fault_under_concurrency"],
        "assumptions": ["sampling of schedules, not systematic enumeration with a preemption bound", "interleavings inside a region without any intercepted call are not executed; such regions are covered by TSan's happens-before analysis only", "races on memory touched only inside uninstrumented libc are invisible"],
    },
    "C10": {
        "variants": ["asan-ts"], "level": "exploration",
        "quick": T(1600, 70), "thorough": T(32000, 900),
        "rule": "families of 160 seeds per output type: slot 0 = census of the scheduling points thread B passes inside one wrapped call; slot k = a real fork() taken by thread A exactly when B is parked at its k-th scheduling point (every point, in particular those where B owns the registry mutex), the child then makes a wrapped exec call and reports its history over a pipe; remaining slots = sampled points, alternately with a grandchild fork, with one or two further parent threads parked at seeded points inside their own wrapped calls when the fork happens, and (every fifth) as a batch in which two or three parent threads fork at the same time, one or two times each, under a seeded schedule (random walk or PCT) with scheduling points in the handlers' mutex operations and at the fork itself, next to a thread that only makes wrapped calls; every such fork has a real child that reports its own call. fork handlers registered by the library (pthread_atfork -> __register_atfork) are run as library code. "
                "non-trivial = fork happened while B was inside the library; distinct = (mode, fork point, output)",
        "probes": ["census", "grandchild", "three_or_more_parent_threads", "atfork_handlers", "forker_waited_for_mutex", "fork_window", "concurrent_forkers", "concurrent_forkers_with_child"],
    },
    "C11": {
        "variants": ["asan-ts", "asan-nots", "asan-ts+reuse"], "variant_share": {"asan-ts": 0.8, "asan-nots": 0.7, "asan-ts+reuse": 0.5}, "level": "exploration",
        "quick": T(8000, 70), "thorough": T(150000, 900),
        "rule": "one run = history of 2-8 (thorough: 2-30) calls in one simulated process; before each call the config file is rewritten (each option present with probability 1/2, valid and invalid values), emptied, corrupted, damaged (rejected lines next to accepted options), deleted, made unreadable or left alone; "
                "oracle = differential: call k is re-run as the first call of a pristine library image (.data/.bss restored) in the same simulated OS state and must produce the same records at the same sinks; ASan for double frees; library-attributed live heap must not grow. non-trivial = at least 2 calls; distinct = sequence of config classes",
        "probes": ["deleted", "unreadable", "corrupted", "emptied", "damaged_with_valid_options", "header_lost"],
    },
    "C17": {
        "variants": ["asan-ts"], "level": "exploration",
        "quick": T(4000, 70), "thorough": T(100000, 900),
        "rule": "one run = 2-6 (thorough: 2-16) writer threads, each logging 1-3 (1-5) records of 1 byte .. the configured maximum (boundary sizes 4096, 8192, limit) to the same file with pre-existing content (also devtty/devnull), the scheduler switching writers at every simulated open/write/close; "
                "one writer call in ten has its own write or close fail (ENOSPC, EIO): it may lose its own record, never anybody else's (ftruncate is part of the simulated file layer). structural: description opened O_APPEND without O_TRUNC and the record delivered by exactly one write; historical: final content = old content + permutation of whole records. non-trivial = writers overlapped; distinct = hash of the (writer, syscall) interleaving",
        "probes": ["record_ge_4096", "record_ge_65536", "16_writers"],
        "assumptions": ["simulated st_blksize / stdio buffer 4096", "writers are threads of one process; separate processes differ only in not sharing the registry, which is never held during output"],
    },
})
MANIFEST_TEXT.update({
    "C09": {"level_text": "seeded schedule search over real caller threads parked and released one at a time at every intercepted synchronisation and I/O point; ThreadSanitizer build reports unsynchronised accesses under the serialised schedule (happens-before, scheduler invisible), AddressSanitizer build catches memory errors under the same schedules; deadlock detected exactly (no runnable thread); per-thread record content and registry emptiness judged against the model", "level_note": _ASSUME + "; the mutex/once used by tsrm.c are the scheduler's (recursive ownership by thread id)"},
    "C10": {"level_text": "schedule enumeration: a real fork() placed at every scheduling point a second thread passes inside the library; in the child, blocking on a mutex copy owned by a thread that does not exist there is detected at once (no timeout)", "level_note": _ASSUME + "; mutex state lives in the caller's pthread_mutex_t bytes so fork copies it as it copies a real one"},
    "C11": {"level_text": "seeded histories of configuration changes in both builds with a differential oracle against a pristine instance of the library (writable segments restored) in the same simulated OS state", "level_note": _ASSUME},
    "C17": {"level_text": "seeded schedules of 2-16 writers switching at every simulated system call; decided per record by the system calls used (one write on an O_APPEND description) and by the final file content", "level_note": _ASSUME},
})
_CTL_ASSUME = "trusted: the simulated file layer (open/read/write/lseek/close/fsync/rename/unlink/stat on an in-memory file system, glibc stdio on fopencookie streams), the reference classification of preload-file lines; a kill is a process death, not a power loss: everything the simulated kernel accepted is visible afterwards"
CHECKS.update({
    "C18": {
        "engine": "ctl", "variants": ["ctl"], "level": "exploration", "seed": 0, "claims_sanitizer": True,
        "quick": T(40000, 60), "thorough": T(400000, 600),
        "rule": "one run = initial preload file + enable, status, enable, status executed by the action objects of the working tree on the simulated file layer; the first 14764 seeds enumerate: absent, and all files of 0-4 lines over a 9-line alphabet (foreign entry, comment mentioning libsnoopy.so once / twice incl. the full path, blank, own entry, own entry with trailing comment, foreign libsnoopy.so, two entries on one line, own entry sharing its line) with and without final newline; later seeds draw 0-8 lines from a 28-line grammar (trailing blanks/tabs, CR, path as prefix/suffix, indented, colon-separated ...). "
                "non-trivial = initial file non-empty or changed; distinct = (line-class string, final newline, operations)",
        "probes": ["exhaustive", "class_C", "class_O", "class_S", "class_F", "class_A", "class_x", "class__"],
        "assumptions": ["no schedule or fault dimension: fault-free configuration of the C20 simulator (weak fit)", "lines classified 'ambiguous' (indented own path, own path + CR, own path not first on its line, mention only inside a trailing comment) accept both refusal and append"],
    },
    "C19": {
        "engine": "ctl", "variants": ["ctl"], "level": "exploration", "seed": 0, "claims_sanitizer": True,
        "quick": T(40000, 60), "thorough": T(400000, 600),
        "rule": "same initial states as C18 (exhaustive <= 4 lines over the 9-line alphabet, then the 28-line grammar) with the operation sequences disable,status,enable,disable and enable,disable; token- and line-level comparison of the file before and after; "
                "non-trivial = initial file non-empty or changed; distinct = (line-class string, final newline, operations)",
        "probes": ["exhaustive", "class_O", "class_S", "class_F", "class_A", "class_C"],
        "assumptions": ["no schedule or fault dimension (weak fit)"],
    },
    "C20": {
        "engine": "ctl", "variants": ["ctl"], "level": "fault_enumeration", "seed": 0, "claims_sanitizer": True,
        "quick": T(40960, 60), "thorough": T(600000, 600),
        "rule": "families of 256 seeds = (initial content from 9 fixed + generated files incl. absent and files of 230-600 entries that exceed one stdio buffer, enable or disable): slot 0 = census of the simulated system calls of the fault-free run; slots 1..n+1 = the process is killed immediately before simulated call k (k = n+1: after the last), which covers 'before and after every call'; further slots = each write-type call (open for writing, write, close, fsync, rename) failing with ENOSPC, EIO, EDQUOT or writing short; then the same errors persisting from that call on (a full disk stays full); then one ENOSPC followed by a kill before each later call (error paths are killed too); afterwards the preload file must equal the old or the model's complete new content. "
                "non-trivial = crash or fault fired (or census); distinct = (operation, content hash, mode, crash index, fault)",
        "probes": ["census", "crash_fired", "enospc", "write_error", "short_write", "sticky_fault", "fault_then_crash", "stale_temp_file", "read_fault"],
    },
})
MANIFEST_TEXT.update({
    "C18": {"level_text": "exhaustive over all preload files of <= 4 lines from a 9-line alphabet (x final newline, + absent), seeded beyond from a larger line grammar: result of enable is byte-identical old content or old + optional newline + path + newline as the statement allows, exit status, idempotence (second enable), status afterwards", "level_note": _CTL_ASSUME, "technique": "deterministic simulation (fault-free configuration of the crash simulator) with reference-model refinement; exhaustive small alphabet + seeded generation"},
    "C19": {"level_text": "same state space as C18: every foreign token and every other line survives disable byte for byte and in order, untouched when absent or refused, enable-then-disable round trip", "level_note": _CTL_ASSUME, "technique": "deterministic simulation (fault-free configuration of the crash simulator) with reference-model refinement; exhaustive small alphabet + seeded generation"},
    "C20": {"level_text": "crash-point enumeration: for each (initial content, operation) the run is killed before every simulated system call and after the last, and every write-type call fails with ENOSPC/EIO/EDQUOT (once, or from then on) or writes short, or fails once and the run is killed later; the file must then hold the complete previous or the complete new content", "level_note": _CTL_ASSUME, "technique": "deterministic simulation with fault injection: census of simulated system calls, then one run per crash point, per failing write-type call (one-shot and persistent) and per (failing call, later crash point) pair"},
})
_TECH = {
    "C01": "deterministic simulation: production wrappers hosted under a simulated OS with an exec recorder at dlsym(RTLD_NEXT); seeded generation of inputs, configurations, exec outcomes and sampled I/O faults; history oracle",
    "C02": "deterministic simulation used as a sanitizer harness: seeded and boundary-directed generation of configuration bytes, exec inputs and process states against ASan/UBSan, step cap and watchdog (no schedule or fault dimension)",
    "C03": "deterministic simulation with fault injection: census of intercepted calls, then every single fault (call x errno set, short/EOF), sampled pairs and persistent faults, sink states; would-block / would-signal / step-bound invariants",
    "C04": "deterministic simulation: all sinks of the simulated OS watched, record compared with the reference model, bytes counted as delivered only when handed to the simulated kernel before the EXEC event",
    "C05": "reference-model refinement inside the simulated OS with boundary-directed limits (no schedule or fault dimension)",
    "C06": "deterministic simulation of call histories in one process image (both builds), earlier calls may carry injected faults; marker and model oracles",
    "C07": "deterministic simulation: exhaustive small chain alphabet x worlds, seeded beyond; model conjunction, permutation/duplication invariance, silence on drop",
    "C08": "reference-model refinement of the library's option-value API inside the simulated OS (no schedule or fault dimension)",
    "C09": "deterministic simulation with a seeded scheduler over real parked threads (random walk, PCT, long park, single-park enumeration) under ThreadSanitizer and AddressSanitizer; exact deadlock detection",
    "C10": "deterministic simulation: real fork() placed at every scheduling point of a second thread (census, then enumeration), child judged through a pipe, blocking detected without timeouts",
    "C11": "deterministic simulation of configuration histories (both builds) with a differential oracle against a pristine image of the library in the same simulated OS state",
    "C12": "deterministic simulation: generated simulated process states, each data source compared with the value derived from the state",
    "C14": "reference-model refinement over simulated real/effective uids (no schedule or fault dimension)",
    "C15": "deterministic simulation of /proc ancestor chains incl. unreadable entries; reference walk as oracle",
    "C16": "deterministic simulation with fault injection: residue snapshots (descriptors, library heap via sanitizer hooks, environ, cwd, umask, signals) over repeated calls, under the single-fault enumeration of C03",
    "C17": "deterministic simulation with a seeded scheduler switching writers at every simulated system call; per-record syscall oracle and final-content oracle",
}
for _k, _v in _TECH.items():
    MANIFEST_TEXT[_k]["technique"] = _v
for _e in list(NOT_APPLICABLE):
    if _e["property_id"] in CHECKS:
        NOT_APPLICABLE.remove(_e)

CHECKS["C07"]["exhaustive_subspace"] = {"probe": "exhaustive_alphabet", "size": (16 + 256 + 4096) * 12, "what": "all chains of <= 3 elements over the 16-spec alphabet x 12 worlds (seeds 0..52415)"}
CHECKS["C18"]["exhaustive_subspace"] = {"probe": "exhaustive", "size": 2 * 7381, "what": "absent + all preload files of 0-4 lines over the 9-line alphabet, with and without final newline (seeds 0..14761)"}
CHECKS["C19"]["exhaustive_subspace"] = {"probe": "exhaustive", "size": 2 * 7381, "what": "same enumeration as C18, operation sequences disable,status,enable,disable / enable,disable"}

for _p in ("C09", "C17", "C10"):
    CHECKS[_p]["shrink_budget"] = (600, 300)     # plans with threads and an explicit schedule need more candidate runs
