#!/bin/bash
# No-false-alarm self-test: every check, quick tier, on the unchanged tree under N different VERIF_SEEDs
# (evidence and replays go to a scratch directory). Any non-zero exit is printed.
cd "$(dirname "$0")/.."
N=${1:-10}; OUT=$(mktemp -d /var/tmp/snoopy-verif-seeds.XXXXXX); bad=0
for s in $(seq 1 $N); do
  for id in $(python3 -c "import json;print(' '.join(c['property_id'] for c in json.load(open('MANIFEST.json'))['checks']))"); do
    o=$(VERIF_SEED=$((s*7919+13)) VERIF_OUT=$OUT bin/check $id quick 2>&1); c=$?
    if [ $c -ne 0 ]; then bad=$((bad+1)); echo "seed $((s*7919+13)) $id exit=$c"; echo "$o" | grep -E "VIOLATION|HARNESS|class=" | head -5; fi
  done
  echo "VERIF_SEED=$((s*7919+13)): done"
done
rm -rf "$OUT"
echo "SEED-SELFTEST: $bad non-zero exits in $N x all checks"
[ $bad -eq 0 ]
