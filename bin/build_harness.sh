#!/bin/bash
# Compile the simulator (uninstrumented objects, shared by all variants) and link one
# harness per library variant against the production libsnoopy.so of the current tree.
#   usage: build_harness.sh <variant>   -> prints path of the simlib executable
set -euo pipefail
VARIANT=${1:?variant}
VERIF=$(cd "$(dirname "$0")/.." && pwd)
B=$VERIF/build
mkdir -p "$B"
LIBDIR=$("$VERIF/bin/build_variant.sh" "$VARIANT")
exec 8>"$B/.lock"; flock 8
CXXFLAGS="-std=c++17 -g -O1 -fno-omit-frame-pointer -Wall -Wextra -Wno-unused-parameter -Wno-missing-field-initializers -Wno-nonnull-compare -Wno-infinite-recursion -fno-builtin-malloc -fPIE"
objs=()
for src in "$VERIF"/sim/*.cpp; do
  case $(basename "$src") in ctl_*) continue;; esac
  o=$B/$(basename "${src%.cpp}").o
  if [ ! -f "$o" ] || [ "$src" -nt "$o" ] || [ -n "$(find "$VERIF"/sim -name '*.hpp' -newer "$o" | head -1)" ]; then
    need=1
  fi
done
if [ "${need:-0}" = 1 ]; then
  pids=()
  for src in "$VERIF"/sim/*.cpp; do
    case $(basename "$src") in ctl_*) continue;; esac
    o=$B/$(basename "${src%.cpp}").o
    g++ $CXXFLAGS -c "$src" -o "$o" & pids+=($!)
  done
  for p in "${pids[@]}"; do wait "$p"; done
fi
for src in "$VERIF"/sim/*.cpp; do case $(basename "$src") in ctl_*) continue;; esac; objs+=("$B/$(basename "${src%.cpp}").o"); done
if [ ! -f "$B/libsimexec.so" ] || [ "$VERIF/sim/simexec.c" -nt "$B/libsimexec.so" ]; then
  gcc -shared -fPIC -O1 -g -o "$B/libsimexec.so" "$VERIF/sim/simexec.c"
fi
case $VARIANT in
  asan-*) SAN="-fsanitize=address,undefined";;
  tsan-*) SAN="-fsanitize=thread";;
  *) SAN="";;
esac
OUT=$LIBDIR/simlib
newest=$(ls -t "${objs[@]}" "$B/libsimexec.so" | head -1)
if [ ! -x "$OUT" ] || [ "$newest" -nt "$OUT" ]; then
  g++ -pie -rdynamic $SAN -o "$OUT.tmp.$$" "${objs[@]}" -Wl,--no-as-needed -L"$LIBDIR" -lsnoopy -L"$B" -lsimexec -Wl,--as-needed -ldl -lpthread \
      -Wl,-rpath,"$LIBDIR" -Wl,-rpath,"$B"
  mv "$OUT.tmp.$$" "$OUT"
fi
echo "$OUT"
