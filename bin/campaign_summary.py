#!/usr/bin/env python3
"""campaign_summary.py <results dir>: copies the results of bin/mutation_campaign.py into mutants/campaign/ (results.jsonl, the diffs of the
survivors that the repository's own suite accepts, triage.txt if present) and prints the table used in DESIGN 13(d)."""
import json, os, shutil, sys, collections
V = os.path.dirname(os.path.dirname(os.path.abspath(__file__)))
src = sys.argv[1]
dst = os.path.join(V, "mutants", "campaign"); os.makedirs(dst + "/survivors", exist_ok=True)
rs = [json.loads(l) for l in open(src + "/results.jsonl")]
shutil.copy(src + "/results.jsonl", dst + "/results.jsonl")
for r in rs:
    if r["status"] == "survived" and r.get("suite") == "passes":
        p = os.path.join(src, "survivors", r["id"] + ".diff")
        if os.path.exists(p):
            shutil.copy(p, dst + "/survivors/")
c = collections.Counter(r["status"] for r in rs)
surv_pass = [r for r in rs if r["status"] == "survived" and r.get("suite") == "passes"]
surv_fail = [r for r in rs if r["status"] == "survived" and r.get("suite") != "passes"]
by = collections.Counter(r.get("by") for r in rs if r["status"] == "killed")
print("mutants run: %d; killed by a quick check: %d; harness-problem (old driver): %d; do not compile: %d; survived: %d (of these the repository's suite rejects %d, accepts %d)" % (len(rs), c["killed"], c["harness-problem"], c["stillborn"], c["survived"], len(surv_fail), len(surv_pass)))
print("first check to kill: " + ", ".join("%s %d" % kv for kv in by.most_common()))
byop = collections.defaultdict(lambda: [0, 0])
for r in rs:
    k = r["op"].rstrip("0123456789"); byop[k][0] += 1; byop[k][1] += r["status"] == "killed"
print("per operator (run/killed): " + ", ".join("%s %d/%d" % (k, v[0], v[1]) for k, v in sorted(byop.items())))
