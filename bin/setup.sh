#!/bin/bash
# Offline set-up after a fresh restore: compile the simulator and build the sanitizer
# variants of the current /repo tree (everything comes from files on disk).
set -euo pipefail
cd "$(dirname "$0")/.."
for v in asan-ts asan-nots tsan-ts; do bin/build_variant.sh $v >/dev/null & done
wait
for v in asan-ts asan-nots tsan-ts; do bin/build_harness.sh $v >/dev/null; done
bin/build_ctl.sh >/dev/null
echo "setup ok"
