#!/usr/bin/env python3
"""seed_round.py <round dir> <spec.json>: writes the prompt files for one round of independent seeded changes and creates one
scratch git worktree of /repo per property under <round dir> (outside /repo and /verif). spec.json maps a property id to
[what the breakage must need in order to manifest, mechanisms already studied that the agent should avoid].
The sub-agent gets only its prompt file (property text) and its worktree; nothing from /verif."""
import json, os, subprocess, sys
VERIF = os.path.dirname(os.path.dirname(os.path.abspath(__file__)))
rd, spec = sys.argv[1], json.load(open(sys.argv[2]))
props = {json.loads(l)['id']: json.loads(l) for l in open(VERIF + '/properties.jsonl')}
TMPL = '''You are helping to evaluate a verification effort by playing the role of a careless-but-plausible developer.

Working directory: {d}  — this is your own scratch git worktree of the a2o/snoopy repository (a small C library, libsnoopy.so, that is LD_PRELOADed, wraps execv/execve and logs every program execution; plus a CLI `snoopyctl`). It is already configured and built in-tree (./configure was run; `make -j8` rebuilds; `make -k -j8 check` runs the project's test suite, about 175 shell tests; two tests, tests/datasource/datasource_systemd_unit_name.sh and tests/output/output_socket.sh, fail already on the unmodified tree and may be ignored; tests/datasource/datasource_timestamp_us.sh is timing-sensitive and may fail when the machine is busy - re-run it alone if it does). Work ONLY inside {d}. Do not read or touch /verif or /repo. There is no network. Do NOT use `git stash` (the stash is shared with the other worktrees of the same repository): to compare against the unmodified tree use `git diff > seed/patch.diff`, `git apply -R seed/patch.diff` and `git apply seed/patch.diff`.

The property under study ({id}: {title}):

  {statement}

  It is meant to hold: {quant}

YOUR TASK: produce ONE source change to a2o/snoopy (files under src/ or lib/ only; not tests, not build files) that BREAKS this property, while
  (a) the tree still compiles without new warnings-as-errors (`make -j8` succeeds), and
  (b) the existing test suite still passes exactly as before (`make -k -j8 check`: the same tests pass as on the unmodified tree), and
  (c) the breakage is SUBTLE: it must need something specific to manifest — {hint}
The breakage must be reachable through the product as shipped (configuration only from snoopy.ini with lines of at most 1023 bytes; the real execv/execve wrappers; snoopyctl on the ld.so.preload file).
Be inventive: several obvious edits have been studied already ({avoid}); look for a DIFFERENT mechanism - two cooperating sites that each look fine alone, a resource used after it was released, a check performed on the wrong value, state shared where it should be per call/per thread, an error path that skips a step, a boundary that is off by one only in a rarely used mode.
Make the change look like something a developer could plausibly commit (small, plausible-looking code, a benign-sounding commit message in your notes). Do not add comments that point at the bug.

Also produce a DEMONSTRATION: a small program or shell script (put it under {d}/seed/) that FAILS (non-zero exit, with a clear message) on the tree WITH your change and PASSES (exit 0) on the tree WITHOUT it. It may use the built artefacts: src/.libs/libsnoopy.so, the test preload library under tests/bin (honours the SNOOPY_INI environment variable), src/cli/snoopyctl (honours SNOOPY_TEST_LD_SO_PRELOAD_PATH and SNOOPY_TEST_LIBSNOOPY_SO_PATH), tests/bin/snoopy-test, or compile the relevant .c files into a small test program. Keep it deterministic (interpose libc functions from the demo program, use barriers, inject the fault yourself).

Deliverables, all inside {d}/seed/ :
  - patch.diff   : output of `git diff` for your source change (relative to HEAD), applying cleanly with `git apply` at the repository root
  - demo.sh (plus whatever it compiles): `sh seed/demo.sh` run from {d} must exit 0 without the patch and non-zero with it (it may rebuild what it needs)
  - NOTES.md     : what the change is, why it breaks the property, exactly what is needed for it to manifest (a section titled "What it needs to manifest"), the commands you ran and their results
Before you finish, actually verify all of (a), (b) and the demo in both states, and leave the worktree with the patch APPLIED and built. In your final message, summarise the change in 5-10 lines.'''
os.makedirs(rd, exist_ok=True)
for pid, (hint, avoid) in spec.items():
    p = props[pid]; d = os.path.join(rd, pid)
    open(os.path.join(rd, 'prompt-%s.txt' % pid), 'w').write(TMPL.format(d=d, id=pid, title=p['title'], statement=p['statement'], quant=p['quantifier']['text'], hint=hint, avoid=avoid))
    subprocess.run(['git', '-C', '/repo', 'worktree', 'add', '-q', '--detach', d, 'HEAD'], check=True)
    subprocess.run(['rsync', '-a', '--exclude', '.git', '--exclude', 'tests/*/*.out', '/repo/', d + '/'], check=True)
    print(pid, d)
