#!/bin/bash
# Build one sanitizer variant of a2o/snoopy from /repo's CURRENT WORKING TREE in a
# scratch copy, keep only the small artefacts in /verif/.cache/<treehash>/<variant>/
# and print that directory. An unchanged tree is never rebuilt.
#   usage: build_variant.sh asan-ts|asan-nots|tsan-ts|plain-ts
set -euo pipefail
VARIANT=${1:?variant}
REPO=${SNOOPY_REPO:-/repo}
VERIF=$(cd "$(dirname "$0")/.." && pwd)
CACHE=$VERIF/.cache
mkdir -p "$CACHE"

# key: every non-generated input of the build
treehash() {
  ( cd "$REPO" && find . -path ./.git -prune -o -path ./autom4te.cache -prune -o -path ./tests -prune -o -type f \
      \( -name '*.c' -o -name '*.h' -o -name '*.am' -o -name '*.ac' -o -name '*.m4' -o -name '*.in' -o -name '*.common' -o -name 'bootstrap.sh' \) \
      ! -name 'config.h' ! -name 'Makefile.in' ! -name 'config.h.in' -print0 | LC_ALL=C sort -z | xargs -0 sha256sum ) | sha256sum | cut -c1-24
}
H=$(treehash)
OUT=$CACHE/$H/$VARIANT-r2
if [ -f "$OUT/.ok" ]; then touch "$CACHE/$H" 2>/dev/null || true; echo "$OUT"; exit 0; fi
mkdir -p "$CACHE/$H"
exec 9>"$CACHE/$H/.lock.$VARIANT"
flock 9
if [ -f "$OUT/.ok" ]; then echo "$OUT"; exit 0; fi

case $VARIANT in
  asan-ts)   CF="-g -O1 -fno-omit-frame-pointer -fsanitize=address,undefined -fsanitize-recover=address,undefined"; OPTS="";;
  asan-nots) CF="-g -O1 -fno-omit-frame-pointer -fsanitize=address,undefined -fsanitize-recover=address,undefined"; OPTS="--disable-thread-safety";;
  tsan-ts)   CF="-g -O1 -fno-omit-frame-pointer -fsanitize=thread"; OPTS="";;
  plain-ts)  CF="-g -O2"; OPTS="";;
  *) echo "unknown variant $VARIANT" >&2; exit 2;;
esac

SCR=$(mktemp -d /var/tmp/snoopy-verif-build.XXXXXX)
trap 'rm -rf "$SCR"' EXIT
LOG=$CACHE/$H/build-$VARIANT.log
{
  rsync -a --exclude .git --exclude 'tests/*/*.out' "$REPO"/ "$SCR"/
  cd "$SCR"
  if [ -f Makefile ]; then make distclean >/dev/null 2>&1 || true; fi
  if [ ! -x ./configure ]; then ./bootstrap.sh; fi
  # SNOOPY_VERIF_SIM is the reserved guard for source hooks (none exist today)
  ./configure CC=gcc CFLAGS="$CF -Wno-error -DSNOOPY_VERIF_SIM=1" --sysconfdir=/simroot/etc --libdir=/simroot/lib $OPTS
  make -j16 -C lib
  make -j16 -C src
} >"$LOG" 2>&1 || { echo "BUILD FAILED, see $LOG" >&2; tail -30 "$LOG" >&2; exit 2; }

rm -rf "$OUT.tmp"; mkdir -p "$OUT.tmp/cli"
cp "$SCR"/src/.libs/libsnoopy.so.0.0.0 "$OUT.tmp/libsnoopy.so.0.0.0"
ln -s libsnoopy.so.0.0.0 "$OUT.tmp/libsnoopy.so.0"
ln -s libsnoopy.so.0.0.0 "$OUT.tmp/libsnoopy.so"
cp "$SCR"/src/cli/action-enable.o "$SCR"/src/cli/action-disable.o "$SCR"/src/cli/action-status.o "$OUT.tmp/cli/"
cp "$SCR"/src/cli/.libs/cli-subroutines.o "$OUT.tmp/cli/" 2>/dev/null || cp "$SCR"/src/cli/cli-subroutines.o "$OUT.tmp/cli/"
cp "$SCR"/src/util/.libs/libsnoopy-utils.a "$OUT.tmp/cli/"
if file "$SCR"/src/cli/snoopyctl | grep -q ELF; then cp "$SCR"/src/cli/snoopyctl "$OUT.tmp/cli/snoopyctl"; elif [ -f "$SCR"/src/cli/.libs/snoopyctl ]; then cp "$SCR"/src/cli/.libs/snoopyctl "$OUT.tmp/cli/snoopyctl"; fi
cp "$SCR"/config.h "$OUT.tmp/config.h"
grep -E 'PACKAGE_VERSION|SNOOPY_CONF_(MESSAGE_FORMAT|FILTER_CHAIN|SYSLOG|OUTPUT_DEFAULT|CONFIGFILE_PATH|LIBDIR)' "$SCR"/config.h > "$OUT.tmp/config.summary" || true
touch "$OUT.tmp/.ok"
mv "$OUT.tmp" "$OUT"
# keep the cache small: of the trees not used for two hours, keep the 8 most recent
# (never the tree being built, never one touched in the last two hours: other checks may be using it)
touch "$CACHE/$H"
find "$CACHE" -mindepth 1 -maxdepth 1 -type d -mmin +120 ! -name "$H" -print0 2>/dev/null | xargs -0 -r ls -1dt 2>/dev/null | tail -n +9 | xargs -r rm -rf
echo "$OUT"
