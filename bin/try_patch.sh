#!/bin/bash
# Sensitivity trial: apply a patch to a scratch copy of /repo and run checks against it.
#   usage: try_patch.sh <patch.diff> <check id>...      (evidence/replays go to a scratch dir, /repo is untouched)
set -uo pipefail
PATCH=$(readlink -f "$1"); shift
VERIF=$(cd "$(dirname "$0")/.." && pwd)
SCR=$(mktemp -d /var/tmp/snoopy-verif-mutant.XXXXXX)
trap 'rm -rf "$SCR"' EXIT
mkdir -p "$SCR/repo" "$SCR/out"
rsync -a --exclude .git --exclude 'tests/*/*.out' /repo/ "$SCR/repo/"
( cd "$SCR/repo" && patch -p1 -s < "$PATCH" ) || { echo "PATCH DOES NOT APPLY"; exit 3; }
rc=0
for id in "$@"; do
  out=$(SNOOPY_REPO="$SCR/repo" VERIF_OUT="$SCR/out" "$VERIF/bin/check" "$id" "${TIER:-quick}" 2>&1)
  code=$?
  echo "--- $id exit=$code"
  echo "$out" | grep -E "^VIOLATION|^  class=|^KNOWN|^HARNESS|^$id " | cut -c1-300
  echo "$out" | grep -A2 "^  class=" | grep -v "^  class=\|^--" | cut -c1-300 | head -6
  [ $code -ne 0 ] && rc=1
done
exit $rc
