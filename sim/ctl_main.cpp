// simctl — the snoopyctl enable/disable/status action objects of the working tree, hosted on a
// simulated file layer with a crash point at every simulated system call (C18, C19, C20).
//   simctl run <C18|C19|C20> <seed_lo> <seed_hi> [tier] | gen <id> <seed> [tier] | replay <file>
// Linked with -Wl,--wrap=... so that only this executable's file access is redirected.
#include "json.hpp"
#include "sim.hpp"
#include <errno.h>
#include <fcntl.h>
#include <map>
#include <setjmp.h>
#include <stdarg.h>
#include <stdio.h>
#include <stdio_ext.h>
#include <stdlib.h>
#include <string.h>
#include <sys/stat.h>
#include <unistd.h>

extern "C" {
int snoopy_cli_action_enable();
int snoopy_cli_action_disable();
int snoopy_cli_action_status();
__attribute__((used, visibility("default"))) const char *__asan_default_options() { return "exitcode=77:color=never:detect_leaks=0:abort_on_error=0"; }
__attribute__((used, visibility("default"))) const char *__ubsan_default_options() { return "halt_on_error=1:exitcode=77:print_stacktrace=1:color=never"; }
}

#define LIBPATH "/simroot/lib/libsnoopy.so"
#define PRELOAD "/etc/ld.so.preload"

// ------------------------------------------------------------------ simulated file layer
struct SFile { std::string content; int mode = 0644; unsigned uid = 0, gid = 0; };
struct SFd { std::string path; int flags = 0; long off = 0; };
struct CEv { std::string k, s; long ret = 0; int err = 0; };
static struct Ctl {
    std::map<std::string, SFile> files;
    std::map<int, SFd> fds; int next_fd = 10000;
    std::vector<CEv> trace;
    int calls = 0, crash_at = -1;            // crash immediately before simulated call number crash_at (1-based); n+1 = after the last
    int wcalls = 0, fault_nth = -1, fault_err = 0; bool fault_short = false; bool fault_fired = false;
    int rcalls = 0; bool fault_read = false;   // the planned fault counts read calls instead of write-type calls
    bool fault_sticky = false;                  // the condition stays (a full disk stays full): every write-type call from fault_nth on fails
    bool active = false;
    jmp_buf jb; int exit_code = 0;
    int tmp_counter = 0;
} C;
static std::map<int, void *> g_bufs;

enum { J_EXIT = 1, J_CRASH = 2 };
static void tick(const char *kind, const std::string &s) {
    C.calls++;
    if (C.calls == C.crash_at) longjmp(C.jb, J_CRASH);
    C.trace.push_back({kind, s, 0, 0});
}
static bool wfault(int &err, bool &shortw) {   // write-type call: does the planned fault hit it?
    int n = C.wcalls++;
    if (C.fault_read) return false;
    if (n == C.fault_nth || (C.fault_sticky && C.fault_nth >= 0 && n > C.fault_nth)) { C.fault_fired = true; err = C.fault_err; shortw = C.fault_short; return true; }
    return false;
}
static std::string dir_of(const std::string &p) { size_t k = p.rfind('/'); return k == std::string::npos ? "." : k == 0 ? "/" : p.substr(0, k); }
static bool dir_exists(const std::string &d) { return d == "/" || d == "/etc" || d == "/simroot/lib" || d == "/tmp"; }

static int s_open(const char *path, int flags, int mode) {
    tick("open", path);
    bool wr = (flags & O_ACCMODE) != O_RDONLY;
    if (wr) { int e; bool sh; if (wfault(e, sh) && e) { C.trace.back().err = e; return -e; } }
    auto it = C.files.find(path);
    if (it == C.files.end()) {
        if (!(flags & O_CREAT)) { C.trace.back().err = ENOENT; return -ENOENT; }
        if (!dir_exists(dir_of(path))) { C.trace.back().err = ENOENT; return -ENOENT; }
        SFile f; f.mode = mode & 0777 & ~022; C.files[path] = f; it = C.files.find(path);
    } else if ((flags & O_CREAT) && (flags & O_EXCL)) { C.trace.back().err = EEXIST; return -EEXIST; }
    if ((flags & O_TRUNC) && wr) it->second.content.clear();
    int fd = C.next_fd++; C.fds[fd] = {path, flags, 0};
    C.trace.back().ret = fd;
    return fd;
}
static long s_write(int fd, const void *buf, size_t n) {
    auto it = C.fds.find(fd); if (it == C.fds.end()) return -EBADF;
    tick("write", it->second.path);
    int e; bool sh;
    if (wfault(e, sh)) { if (e) { C.trace.back().err = e; return -e; } if (sh && n > 1) n = n / 2; }
    auto ft = C.files.find(it->second.path);
    if (ft == C.files.end()) return -EIO;     // unlinked: ignore
    std::string &c = ft->second.content;
    if (it->second.flags & O_APPEND) it->second.off = (long)c.size();
    if ((size_t)it->second.off + n > c.size()) c.resize((size_t)it->second.off + n);
    memcpy(&c[(size_t)it->second.off], buf, n); it->second.off += (long)n;
    C.trace.back().ret = (long)n;
    return (long)n;
}
static long s_read(int fd, void *buf, size_t n) {
    auto it = C.fds.find(fd); if (it == C.fds.end()) return -EBADF;
    tick("read", it->second.path);
    { int k = C.rcalls++; if (C.fault_read && k == C.fault_nth) { C.fault_fired = true; C.trace.back().ret = -1; C.trace.back().err = C.fault_err; return -C.fault_err; } }   // a medium error in the middle of the file: not the end of the file
    auto ft = C.files.find(it->second.path); if (ft == C.files.end()) return 0;
    long avail = (long)ft->second.content.size() - it->second.off; if (avail <= 0) return 0;
    size_t take = n < (size_t)avail ? n : (size_t)avail;
    memcpy(buf, ft->second.content.data() + it->second.off, take); it->second.off += (long)take;
    C.trace.back().ret = (long)take;
    return (long)take;
}
static long s_lseek(int fd, long off, int wh) {
    auto it = C.fds.find(fd); if (it == C.fds.end()) return -EBADF;
    tick("lseek", it->second.path);
    auto ft = C.files.find(it->second.path); long size = ft == C.files.end() ? 0 : (long)ft->second.content.size();
    long base = wh == SEEK_SET ? 0 : wh == SEEK_CUR ? it->second.off : size;
    if (base + off < 0) return -EINVAL;
    it->second.off = base + off; return it->second.off;
}
static int s_close(int fd) {
    auto it = C.fds.find(fd); if (it == C.fds.end()) return -EBADF;
    tick("close", it->second.path);
    bool wr = (it->second.flags & O_ACCMODE) != O_RDONLY;
    C.fds.erase(it);
    if (wr) { int e; bool sh; if (wfault(e, sh) && e) { C.trace.back().err = e; return -e; } }
    return 0;
}

// cookie streams: glibc's stdio on top of the simulated calls
static ssize_t ck_read(void *c, char *b, size_t n) { long r = s_read((int)(intptr_t)c, b, n); if (r < 0) { errno = (int)-r; return -1; } return r; }
static ssize_t ck_write(void *c, const char *b, size_t n) {
    size_t done = 0;
    while (done < n) { long r = s_write((int)(intptr_t)c, b + done, n - done); if (r < 0) { errno = (int)-r; break; } if (!r) break; done += (size_t)r; }
    return (ssize_t)done;
}
static int ck_seek(void *c, off64_t *o, int wh) { long r = s_lseek((int)(intptr_t)c, (long)*o, wh); if (r < 0) { errno = (int)-r; return -1; } *o = r; return 0; }
static std::map<FILE *, int> g_stream_fd;
static int ck_close(void *c) { int fd = (int)(intptr_t)c; for (auto it = g_stream_fd.begin(); it != g_stream_fd.end();) { if (it->second == fd) it = g_stream_fd.erase(it); else ++it; } int r = s_close(fd); auto it = g_bufs.find(fd); if (it != g_bufs.end()) { free(it->second); g_bufs.erase(it); } if (r < 0) { errno = -r; return -1; } return 0; }
static FILE *stream_for(int fd, const char *mode) {
    cookie_io_functions_t fn = {ck_read, ck_write, ck_seek, ck_close};
    char m[8]; size_t k = 0; for (const char *p = mode; *p && k < 6; p++) if (strchr("rwa+", *p)) m[k++] = *p; m[k] = 0;
    FILE *f = fopencookie((void *)(intptr_t)fd, m, fn);
    if (!f) return nullptr;
    void *b = malloc(4096); g_bufs[fd] = b; setvbuf(f, (char *)b, _IOFBF, 4096);
    g_stream_fd[f] = fd;
    return f;
}
static bool sim_path(const char *p) { return C.active && p && (strncmp(p, "/etc/", 5) == 0 || strncmp(p, "/simroot/", 9) == 0 || strncmp(p, "/tmp/", 5) == 0); }

extern "C" {
FILE *__real_fopen(const char *, const char *);
FILE *__wrap_fopen(const char *path, const char *mode) {
    if (!sim_path(path)) return __real_fopen(path, mode);
    int fl = mode[0] == 'r' ? O_RDONLY : mode[0] == 'w' ? O_WRONLY | O_CREAT | O_TRUNC : O_WRONLY | O_CREAT | O_APPEND;
    if (strchr(mode, '+')) fl = (fl & ~O_ACCMODE) | O_RDWR;
    if (strchr(mode, 'x')) fl |= O_EXCL;
    int fd = s_open(path, fl, 0666);
    if (fd < 0) { errno = -fd; return nullptr; }
    return stream_for(fd, mode);
}
FILE *__real_fdopen(int, const char *);
FILE *__wrap_fdopen(int fd, const char *mode) { if (!C.fds.count(fd)) return __real_fdopen(fd, mode); return stream_for(fd, mode); }
int __real_fileno(FILE *);
int __wrap_fileno(FILE *f) { auto it = g_stream_fd.find(f); if (it != g_stream_fd.end()) return it->second; return __real_fileno(f); }
int __real_open(const char *, int, ...);
int __wrap_open(const char *path, int flags, ...) {
    int mode = 0; if (flags & O_CREAT) { va_list ap; va_start(ap, flags); mode = va_arg(ap, int); va_end(ap); }
    if (!sim_path(path)) return __real_open(path, flags, mode);
    int fd = s_open(path, flags, mode); if (fd < 0) { errno = -fd; return -1; } return fd;
}
int __wrap_open64(const char *path, int flags, ...) {
    int mode = 0; if (flags & O_CREAT) { va_list ap; va_start(ap, flags); mode = va_arg(ap, int); va_end(ap); }
    if (!sim_path(path)) return __real_open(path, flags, mode);
    int fd = s_open(path, flags, mode); if (fd < 0) { errno = -fd; return -1; } return fd;
}
int __real_mkstemp(char *);
int __wrap_mkstemp(char *tmpl) {
    if (!sim_path(tmpl)) return __real_mkstemp(tmpl);
    size_t n = strlen(tmpl); if (n < 6) { errno = EINVAL; return -1; }
    char suf[8]; snprintf(suf, sizeof suf, "%06d", ++C.tmp_counter); memcpy(tmpl + n - 6, suf, 6);
    int fd = s_open(tmpl, O_RDWR | O_CREAT | O_EXCL, 0600); if (fd < 0) { errno = -fd; return -1; } return fd;
}
ssize_t __real_write(int, const void *, size_t);
ssize_t __wrap_write(int fd, const void *b, size_t n) { if (!C.fds.count(fd)) return __real_write(fd, b, n); long r = s_write(fd, b, n); if (r < 0) { errno = (int)-r; return -1; } return r; }
ssize_t __real_read(int, void *, size_t);
ssize_t __wrap_read(int fd, void *b, size_t n) { if (!C.fds.count(fd)) return __real_read(fd, b, n); long r = s_read(fd, b, n); if (r < 0) { errno = (int)-r; return -1; } return r; }
int __real_close(int);
int __wrap_close(int fd) { if (!C.fds.count(fd)) return __real_close(fd); int r = s_close(fd); if (r < 0) { errno = -r; return -1; } return 0; }
int __real_fsync(int);
int __wrap_fsync(int fd) {
    auto it = C.fds.find(fd); if (it == C.fds.end()) return __real_fsync(fd);
    tick("fsync", it->second.path); int e; bool sh; if (wfault(e, sh) && e) { C.trace.back().err = e; errno = e; return -1; } return 0;
}
int __wrap_fdatasync(int fd) { return __wrap_fsync(fd); }
int __real_rename(const char *, const char *);
int __wrap_rename(const char *a, const char *b) {
    if (!sim_path(a) && !sim_path(b)) return __real_rename(a, b);
    tick("rename", std::string(a) + " -> " + b);
    int e; bool sh; if (wfault(e, sh) && e) { C.trace.back().err = e; errno = e; return -1; }
    auto it = C.files.find(a); if (it == C.files.end()) { errno = ENOENT; return -1; }
    SFile f = it->second; C.files.erase(it); C.files[b] = f;       // atomic replacement
    for (auto &d : C.fds) if (d.second.path == a) d.second.path = b;
    return 0;
}
int __real_unlink(const char *);
int __wrap_unlink(const char *p) { if (!sim_path(p)) return __real_unlink(p); tick("unlink", p); if (!C.files.erase(p)) { errno = ENOENT; return -1; } return 0; }
int __real_access(const char *, int);
int __wrap_access(const char *p, int m) {
    if (!sim_path(p)) return __real_access(p, m);
    tick("access", p);
    if (!C.files.count(p)) { errno = ENOENT; return -1; }
    return 0;
}
static void fill_stat(const SFile &f, struct stat *st) { memset(st, 0, sizeof *st); st->st_mode = S_IFREG | (mode_t)f.mode; st->st_uid = f.uid; st->st_gid = f.gid; st->st_size = (off_t)f.content.size(); st->st_nlink = 1; st->st_blksize = 4096; }
int __real_stat(const char *, struct stat *);
int __wrap_stat(const char *p, struct stat *st) { if (!sim_path(p)) return __real_stat(p, st); tick("stat", p); auto it = C.files.find(p); if (it == C.files.end()) { errno = ENOENT; return -1; } fill_stat(it->second, st); return 0; }
int __wrap_lstat(const char *p, struct stat *st) { return __wrap_stat(p, st); }
int __real_fstat(int, struct stat *);
int __wrap_fstat(int fd, struct stat *st) { auto it = C.fds.find(fd); if (it == C.fds.end()) return __real_fstat(fd, st); tick("fstat", it->second.path); auto ft = C.files.find(it->second.path); if (ft == C.files.end()) { errno = ENOENT; return -1; } fill_stat(ft->second, st); return 0; }
int __real_chmod(const char *, mode_t);
int __wrap_chmod(const char *p, mode_t m) { if (!sim_path(p)) return __real_chmod(p, m); tick("chmod", p); auto it = C.files.find(p); if (it == C.files.end()) { errno = ENOENT; return -1; } it->second.mode = m & 07777; return 0; }
int __real_fchmod(int, mode_t);
int __wrap_fchmod(int fd, mode_t m) { auto it = C.fds.find(fd); if (it == C.fds.end()) return __real_fchmod(fd, m); tick("fchmod", it->second.path); auto ft = C.files.find(it->second.path); if (ft != C.files.end()) ft->second.mode = m & 07777; return 0; }
int __real_fchown(int, uid_t, gid_t);
int __wrap_fchown(int fd, uid_t u, gid_t g) { auto it = C.fds.find(fd); if (it == C.fds.end()) return __real_fchown(fd, u, g); tick("fchown", it->second.path); auto ft = C.files.find(it->second.path); if (ft != C.files.end()) { ft->second.uid = u; ft->second.gid = g; } return 0; }
char *__real_getenv(const char *);
char *__wrap_getenv(const char *n) { if (C.active && (!strcmp(n, "SNOOPY_TEST_LD_SO_PRELOAD_PATH") || !strcmp(n, "SNOOPY_TEST_LIBSNOOPY_SO_PATH") || !strcmp(n, "LD_PRELOAD"))) return nullptr; return __real_getenv(n); }
void __real_exit(int) __attribute__((noreturn));
void __wrap_exit(int code) { if (C.active) { C.exit_code = code; longjmp(C.jb, J_EXIT); } __real_exit(code); }
}

// ------------------------------------------------------------------ one simulated snoopyctl process
struct ActOut { bool crashed = false; int exit_code = 0; std::string out, err; int calls = 0; std::vector<CEv> trace; bool fault_fired = false; int wcalls = 0, rcalls = 0; };
static bool g_next_sticky = false, g_next_read = false;
static ActOut run_action(const std::string &action, int crash_at, int fault_nth, int fault_err, bool fault_short) {
    ActOut o;
    C.fault_sticky = g_next_sticky && fault_nth >= 0; g_next_sticky = false;
    C.fault_read = g_next_read && fault_nth >= 0; g_next_read = false; C.rcalls = 0;
    C.fds.clear(); C.trace.clear(); C.calls = 0; C.crash_at = crash_at; C.wcalls = 0; C.fault_nth = fault_nth; C.fault_err = fault_err; C.fault_short = fault_short; C.fault_fired = false; C.exit_code = 0;
    char *ob = nullptr, *eb = nullptr; size_t on = 0, en = 0;
    FILE *so = stdout, *se = stderr;
    FILE *mo = open_memstream(&ob, &on), *me = open_memstream(&eb, &en);
    stdout = mo; stderr = me;
    C.active = true;
    int j = setjmp(C.jb);
    if (j == 0) {
        int rc = action == "enable" ? snoopy_cli_action_enable() : action == "disable" ? snoopy_cli_action_disable() : snoopy_cli_action_status();
        C.exit_code = rc;
        // a process that ends normally flushes and closes its streams; nothing of ours is left open by the actions
    } else if (j == J_CRASH) o.crashed = true;
    // streams the action left open: a process that ends through exit() flushes them - system calls like any other, counted and open to the
    // crash point and the fault -, a killed process loses what they hold
    if (!o.crashed) {
        if (setjmp(C.jb) == 0) { std::map<FILE *, int> open_now = g_stream_fd; for (auto &kv : open_now) fflush(kv.first); }
        else o.crashed = true;
    }
    C.active = false; C.crash_at = -1; C.fault_nth = -1; C.fault_read = false;
    { std::map<FILE *, int> open_now = g_stream_fd; C.fds.clear(); for (auto &kv : open_now) { __fpurge(kv.first); fclose(kv.first); } }   // the process is gone
    stdout = so; stderr = se;
    fclose(mo); fclose(me);
    if (ob) { o.out.assign(ob, on); free(ob); } if (eb) { o.err.assign(eb, en); free(eb); }
    // stdio streams abandoned by exit()/crash: their buffered bytes never reached the (simulated) kernel
    g_stream_fd.clear();
    C.crash_at = -1;
    o.exit_code = C.exit_code; o.calls = C.calls; o.trace = C.trace; o.fault_fired = C.fault_fired; o.wcalls = C.wcalls; o.rcalls = C.rcalls;
    return o;
}

// ------------------------------------------------------------------ reference model (statements of C18/C19)
struct LineInfo { std::string text; bool comment = false, own = false, mention = false, ambiguous = false; };
static std::vector<std::string> split_lines(const std::string &s, bool *final_nl) {
    std::vector<std::string> v; size_t pos = 0;
    while (pos < s.size()) { size_t nl = s.find('\n', pos); if (nl == std::string::npos) { v.push_back(s.substr(pos)); pos = s.size(); if (final_nl) *final_nl = false; return v; } v.push_back(s.substr(pos, nl - pos)); pos = nl + 1; }
    if (final_nl) *final_nl = true;
    return v;
}
static LineInfo classify(const std::string &l) {
    LineInfo i; i.text = l; const std::string P = LIBPATH;
    if (!l.empty() && l[0] == '#') { i.comment = true; return i; }
    size_t hash = l.find('#');
    std::string code = hash == std::string::npos ? l : l.substr(0, hash);
    bool in_code = code.find("libsnoopy.so") != std::string::npos, anywhere = l.find("libsnoopy.so") != std::string::npos;
    if (l.compare(0, P.size(), P) == 0 && (l.size() == P.size() || l[P.size()] == '#' || l[P.size()] == ' ' || l[P.size()] == '\t')) { i.own = true; i.mention = true; return i; }
    if (!anywhere) return i;
    // the path appears, but not as a clean first entry: indented, followed by CR, not first on its line, or only inside a trailing comment
    size_t at = code.find(P);
    bool whole_token = false;
    if (at != std::string::npos) { bool lb = at == 0 || code[at - 1] == ' ' || code[at - 1] == '\t' || code[at - 1] == ':'; size_t e = at + P.size(); bool rb = e == code.size() || code[e] == ' ' || code[e] == '\t' || code[e] == '\r' || code[e] == ':'; whole_token = lb && rb; }
    if (whole_token || !in_code) { i.ambiguous = true; return i; }
    i.mention = true;          // a different libsnoopy.so (other directory, suffix, prefix)
    return i;
}
struct Model { int must_refuse = 0; bool may_unchanged = false, may_new = false; std::string newc; bool own_present = false; int definite = 0, ambiguous = 0; };
static Model model_enable(bool exists, const std::string &old) {
    Model m; bool fnl = true; std::vector<LineInfo> L; for (auto &l : split_lines(exists ? old : "", &fnl)) L.push_back(classify(l));
    bool own = false, foreign = false, amb = false;
    for (auto &l : L) { if (l.own) own = true; else if (l.mention) foreign = true; if (l.ambiguous) amb = true; }
    m.own_present = own;
    m.newc = old + ((old.empty() || fnl) ? "" : "\n") + LIBPATH + "\n";
    if (own) { m.may_unchanged = true; m.must_refuse = 0; }
    else if (foreign) { m.may_unchanged = true; m.must_refuse = 1; }
    else if (amb) { m.may_unchanged = true; m.may_new = true; m.must_refuse = -1; }
    else { m.may_new = true; }
    return m;
}
static std::vector<std::string> tokens_of(const std::string &line) {   // loader entries of one line: white space / colon separated, '#' starts a comment
    std::vector<std::string> t; std::string code = line.substr(0, line.find('#')); std::string cur;
    for (char c : code) { if (c == ' ' || c == '\t' || c == ':' || c == '\r') { if (!cur.empty()) t.push_back(cur); cur.clear(); } else cur.push_back(c); }
    if (!cur.empty()) t.push_back(cur);
    return t;
}

// ------------------------------------------------------------------ plans
struct CtlPlan {
    std::string property; uint64_t seed = 0; bool exists = true; std::string initial; std::vector<std::string> ops;
    int crash_at = -1; int fault_nth = -1, fault_err = 0; bool fault_short = false, fault_sticky = false, fault_read = false; J extra = J::obj();
    J to_json() const {
        J j = J::obj(); j.set("property", property); j.set("seed", (unsigned long long)seed); j.set("engine", "ctl"); j.set("variant", "ctl");
        if (exists) j.set("initial", initial); else j.set("initial", J());
        j.set("plan", jstrs(ops)); j.set("crash_at", crash_at);
        J f = J::obj(); f.set("nth", fault_nth); f.set("err", fault_err); f.set("short", fault_short); if (fault_sticky) f.set("sticky", true); if (fault_read) f.set("read", true); j.set("fault", f); j.set("extra", extra);
        return j;
    }
    void from_json(const J &j) {
        property = j.gets("property"); seed = (uint64_t)j.geti("seed"); const J *i = j.find("initial"); exists = i && !i->is_null(); initial = exists ? i->s : "";
        ops = jstrs(j.at("plan")); crash_at = (int)j.geti("crash_at", -1); const J &f = j.at("fault"); fault_nth = (int)f.geti("nth", -1); fault_err = (int)f.geti("err"); fault_short = f.getb("short"); fault_sticky = f.getb("sticky"); fault_read = f.getb("read");
        extra = j.has("extra") ? j.at("extra") : J::obj();
    }
};

static const char *ALPHA[9] = {"/lib/foreign.so", "# comment libsnoopy.so", "# " LIBPATH " and libsnoopy.so twice", "", LIBPATH, LIBPATH " # trailing comment", "/opt/other/libsnoopy.so", "/lib/a.so /lib/b.so", LIBPATH " /lib/c.so"};
#define EXH_FILES (1 + 9 + 81 + 729 + 6561)
static std::string exh_file(uint64_t idx, bool *exists) {
    // idx 0: absent; then all files of 0..4 lines over ALPHA, each with and without the final newline
    *exists = true;
    if (idx == 0) { *exists = false; return ""; }
    idx -= 1; bool fnl = idx % 2 == 0; idx /= 2;
    int n = 0; uint64_t cnt = 1; while (idx >= cnt) { idx -= cnt; cnt *= 9; n++; }
    std::string s;
    for (int i = 0; i < n; i++) { s += ALPHA[idx % 9]; idx /= 9; if (i + 1 < n || fnl) s += "\n"; }
    return s;
}
static std::string rand_file(Rng &r) {
    static const char *more[] = {"/lib/x86_64-linux-gnu/libfoo.so.1", "#", "# plain comment", "  ", "\t", LIBPATH "  ", LIBPATH "\t# c", LIBPATH ".1", "/x" LIBPATH, LIBPATH "x", " " LIBPATH, "/lib/foreign.so # libsnoopy.so is great",
        "/lib/b.so " LIBPATH, "/lib/a.so:/lib/b.so", "/usr/lib/libsnoopy.so # other", "libfakeroot.so", LIBPATH "#nospace", "/lib/d.so\t/lib/e.so", "#" LIBPATH,
        "libsnoopy.so", "libsnoopy.so # bare soname, found through the library path", "libsnoopy.so.2",   // entries may be bare sonames
        "/opt/vendor%20libs/libfoo.so", "# 80% of %d users, 100%% %s", "/lib/%n%s%s%s.so",   // the file is data, never a format
        "/simroot/lib/libsnoopy-so", "/simroot/lib/libsnoopy_so # helper", "/simroot/lib/libsnoopyXso",   // the path with another character where its dot is
        LIBPATH LIBPATH, LIBPATH LIBPATH " # twice, back to back", LIBPATH " \xc3\xa9toile.so", LIBPATH "\t\xe9.so /lib/z.so", "\xc3\xa9.so " LIBPATH, LIBPATH " \x0b/lib/v.so"};   // the path glued to itself; neighbours that start with bytes >= 0x80 or odd blanks
    std::string s; int n = (int)r.range(0, 8);
    // a file larger than one or two stdio buffers: many entries of other software around the generated lines
    int big_at = r.chance(1, 12) ? (int)r.below((uint64_t)n + 1) : -1;
    auto big = [&]() { int k = (int)r.range(200, 700); for (int j = 0; j < k; j++) s += (j % 7 == 3 ? "# vendor entry " : "/opt/vendor/lib/libhook-") + std::to_string(j) + (j % 7 == 3 ? "" : ".so") + "\n"; };
    for (int i = 0; i < n; i++) {
        if (i == big_at) big();
        std::string l = r.chance(1, 2) ? ALPHA[r.below(9)] : more[r.below(34)];
        if (r.chance(1, 25)) l = std::string(LIBPATH) + (r.chance(1, 2) ? " # " : "\t#") + std::string((size_t)r.range(3900, 9000), 'c');   // an entry with a very long trailing comment
        if (r.chance(1, 12)) l += "\r";
        s += l; if (i + 1 < n || r.chance(4, 5)) s += "\n";
    }
    if (big_at == n) { if (!s.empty() && s.back() != '\n') s += "\n"; big(); }
    return s;
}

static CtlPlan gen_plan(const std::string &prop, uint64_t seed, const std::string &tier) {
    (void)tier;
    CtlPlan p; p.property = prop; p.seed = seed;
    if (prop == "C18" || prop == "C19") {
        uint64_t idx = seed % 100000000ULL; Rng r(seed * 1000003 + 118);
        if (idx < 2 * (uint64_t)EXH_FILES) { p.initial = exh_file(idx, &p.exists); p.extra.set("exhaustive", true); }
        else { p.initial = rand_file(r); p.exists = !r.chance(1, 30); if (!p.exists) p.initial = ""; }
        if (prop == "C18") p.ops = {"enable", "status", "enable", "status"};
        else p.ops = r.chance(1, 2) || p.extra.getb("exhaustive") ? std::vector<std::string>{"disable", "status", "enable", "disable"} : std::vector<std::string>{"enable", "disable"};
        if (prop == "C19" && p.extra.getb("exhaustive") && (idx % 2)) p.ops = {"enable", "disable"};
        return p;
    }
    // C20: families of 256 seeds = (initial content, operation): slot 0 census, slots 1..n+1 crash before call k, then single write-type faults,
    // persistent faults, and one fault followed by a kill
    uint64_t fam = seed / 256; int slot = (int)(seed % 256);
    Rng r(fam * 1000003 + 120);
    static const char *inits[] = {"", "/lib/foreign.so\n", "/lib/foreign.so", "# comment\n/lib/a.so /lib/b.so\n", LIBPATH "\n", "/lib/a.so\n" LIBPATH "\n/lib/z.so\n", LIBPATH " # c\n/lib/q.so\n", "/lib/a.so\n" LIBPATH};
    int which = (int)(fam % 20);
    if (which < 8) { p.initial = inits[which]; } else if (which == 8) { p.exists = false; }
    else if (which >= 18) {   // content of more than one stdio buffer (4096 bytes here), with (19) and without (18) the library's entry
        int k = (int)r.range(230, 600), own_at = which == 19 ? (int)r.below((uint64_t)k) : -1;
        for (int j = 0; j < k; j++) { if (j == own_at) p.initial += std::string(LIBPATH) + "\n"; p.initial += "/opt/vendor/lib/libhook-" + std::to_string(j) + ".so\n"; }
    }
    else p.initial = rand_file(r);
    bool has_own = false; for (auto &l : split_lines(p.initial, nullptr)) if (classify(l).own) has_own = true;
    std::string op = (fam / 20) % 2 ? "disable" : "enable";
    if (which >= 9) op = has_own ? "disable" : "enable";
    p.ops = {op};
    // census (fault-free, in-process)
    C.files.clear(); C.tmp_counter = 0; C.next_fd = 10000; SFile lib; lib.content = "ELF"; C.files[LIBPATH] = lib; if (p.exists) { SFile f; f.content = p.initial; C.files[PRELOAD] = f; }
    ActOut c = run_action(op, -1, -1, 0, false);
    int n = c.calls, w = c.wcalls;
    p.extra.set("census_calls", n); p.extra.set("census_write_calls", w);
    std::string tr; for (auto &e : c.trace) tr += e.k + " "; p.extra.set("census_trace", tr);
    if (slot == 0) { p.extra.set("mode", "census"); }
    else if (slot <= n + 1) { p.crash_at = slot; p.extra.set("mode", "crash"); }
    else {
        int k = slot - (n + 2); static const int errs[] = {ENOSPC, EIO, EDQUOT, 0};
        if (w == 0) { p.extra.set("mode", "idle"); return p; }
        if (k < w * 4) { p.fault_nth = k / 4; p.fault_err = errs[k % 4]; p.fault_short = (k % 4) == 3; p.extra.set("mode", "fault"); return p; }
        k -= w * 4;
        // the condition persists: from write-type call j on, every write-type call fails (a full disk stays full, a dead device stays dead)
        if (k < w * 3) { p.fault_nth = k / 3; p.fault_err = errs[k % 3]; p.fault_sticky = true; p.extra.set("mode", "sticky-fault"); return p; }
        k -= w * 3;
        // a read of the existing file fails (EIO in the middle of the file is not its end): nothing may be built from the part that was read
        if (k < c.rcalls) { p.fault_nth = k; p.fault_err = EIO; p.fault_read = true; p.extra.set("mode", "read-fault"); return p; }
        k -= c.rcalls;
        // one failing write-type call and then a kill: error paths are code too, and they are killed before each of their calls
        int span = n + 12;
        if (k < w * span) { p.fault_nth = k / span; p.fault_err = ENOSPC; p.crash_at = k % span + 1; p.extra.set("mode", "fault-then-crash"); return p; }
        p.extra.set("mode", "idle");
    }
    return p;
}

// ------------------------------------------------------------------ oracles
static Verdict V(const std::string &c, const std::string &d) { Verdict v; v.violated = true; v.cls = c; v.detail = d; return v; }
static std::string showf(bool exists, const std::string &s) {
    if (!exists) return "<absent>";
    std::string o = "\""; for (unsigned char c : s.substr(0, 300)) { if (c == '\n') o += "\\n"; else if (c == '\t') o += "\\t"; else if (c == '\r') o += "\\r"; else if (c < 32 || c > 126) { char b[8]; snprintf(b, 8, "\\x%02x", c); o += b; } else o.push_back((char)c); }
    return o + "\"";
}
static bool status_says_enabled(const std::string &out) { return out.find("/etc/ld.so.preload:            OK - Snoopy is enabled.") != std::string::npos; }

static Verdict check_enable(bool ex0, const std::string &old, const ActOut &o, bool ex1, const std::string &now) {
    Model m = model_enable(ex0, old);
    bool unchanged = ex0 == ex1 && old == now, is_new = ex1 && now == m.newc;
    std::string ctx = "enable on " + showf(ex0, old) + " (exit " + std::to_string(o.exit_code) + ") left " + showf(ex1, now);
    if (!unchanged && !is_new) return V("enable-content", ctx + " ; allowed: unchanged or " + showf(true, m.newc));
    if (unchanged && !m.may_unchanged) return V("enable-not-added", ctx + " ; the entry had to be appended");
    if (is_new && !unchanged && !m.may_new) return V(m.own_present ? "enable-duplicate-entry" : "enable-despite-foreign", ctx + " ; the file had to stay as it was");
    if (unchanged && m.must_refuse == 1 && o.exit_code == 0) return V("enable-refusal-status", ctx + " ; refusal because of another active libsnoopy.so must exit non-zero");
    if (unchanged && m.must_refuse == 0 && m.own_present && o.exit_code != 0) return V("enable-already-status", ctx + " ; entry already active must exit 0");
    if (is_new && !unchanged && o.exit_code != 0) return V("enable-status", ctx + " ; successful enable must exit 0");
    return Verdict();
}
static Verdict check_disable(bool ex0, const std::string &old, const ActOut &o, bool ex1, const std::string &now) {
    bool fnl; std::vector<LineInfo> L; std::vector<std::string> lines = split_lines(ex0 ? old : "", &fnl); for (auto &l : lines) L.push_back(classify(l));
    int definite = 0, amb = 0, own_idx = -1; for (size_t i = 0; i < L.size(); i++) { if (L[i].mention || L[i].own) definite++; if (L[i].ambiguous) amb++; if (L[i].own && own_idx < 0) own_idx = (int)i; }
    bool unchanged = ex0 == ex1 && old == now;
    std::string ctx = "disable on " + showf(ex0, old) + " (exit " + std::to_string(o.exit_code) + ") left " + showf(ex1, now);
    if (definite >= 2) { if (!unchanged) return V("disable-touched-on-refusal", ctx + " ; duplicate active entries: the file must be left untouched"); if (o.exit_code == 0) return V("disable-refusal-status", ctx + " ; refusal must exit non-zero"); return Verdict(); }
    if (own_idx < 0) {
        if (unchanged) return Verdict();
        if (amb == 0) return V("disable-touched-when-absent", ctx + " ; the library's entry is not in the file: it must be left untouched");
    }
    if (unchanged && own_idx >= 0 && definite + amb < 2) return V("disable-not-removed", ctx + " ; the entry is still there");
    if (unchanged) return Verdict();
    if (!ex1) return V("disable-file-removed", ctx);
    // token/line-level: everything except the own entry survives, in order
    std::vector<std::string> want;   // sequence of surviving items: whole other lines, and foreign tokens of the entry's line
    std::vector<std::string> nl = split_lines(now, nullptr);
    size_t ni = 0;
    for (size_t i = 0; i < lines.size(); i++) {
        bool is_entry_line = (int)i == own_idx || (own_idx < 0 && L[i].ambiguous);
        if (!is_entry_line) {
            if (ni >= nl.size() || nl[ni] != lines[i]) return V("disable-foreign-line-lost", ctx + " ; line " + showf(true, lines[i]) + " was changed, moved or lost");
            ni++; continue;
        }
        std::vector<std::string> keep; for (auto &t : tokens_of(lines[i])) if (t != LIBPATH) keep.push_back(t);
        if (keep.empty()) {   // the line may vanish, or stay as a remainder without any entry (blanks, its comment)
            bool next_matches = ni < nl.size() && i + 1 < lines.size() && nl[ni] == lines[i + 1];
            if (ni < nl.size() && !next_matches && tokens_of(nl[ni]).empty()) ni++;
            continue;
        }
        if (ni >= nl.size()) return V("disable-foreign-token-lost", ctx + " ; entries sharing the line of the library's entry were removed with it: " + showf(true, lines[i]));
        std::vector<std::string> got = tokens_of(nl[ni]);
        if (got != keep) return V("disable-foreign-token-lost", ctx + " ; entries sharing the line of the library's entry were removed or changed: " + showf(true, lines[i]) + " became " + showf(true, ni < nl.size() ? nl[ni] : ""));
        ni++;
    }
    if (ni != nl.size()) return V("disable-extra-content", ctx + " ; unexpected extra lines");
    for (auto &l : nl) if (classify(l).own) return V("disable-not-removed", ctx + " ; an active entry of the library is still present");
    if (o.exit_code != 0) return V("disable-status", ctx + " ; successful disable must exit 0");
    return Verdict();
}

struct RunRes { Verdict v; std::string sig; bool nontrivial = false; J probes = J::obj(); uint64_t hash = 0; };
static RunRes run_plan(const CtlPlan &p) {
    RunRes R;
    C.files.clear(); C.tmp_counter = 0; C.next_fd = 10000;
    SFile lib; lib.content = "ELF"; C.files[LIBPATH] = lib;
    // permission bits and owner of the file as the administrator left it (from the seed): replacing the content must not change them
    static const int modes[] = {0644, 0644, 0644, 0644, 0600, 0664, 0640, 0444}; static const unsigned owners[] = {0, 0, 0, 1000};
    uint64_t mh = fnv(std::to_string(p.seed) + "meta", 1469598103934665603ULL);
    int m0 = modes[mh % 8]; unsigned u0 = owners[(mh >> 8) % 4], g0 = owners[(mh >> 16) % 4] ? 100 : 0;
    if (p.exists) { SFile f; f.content = p.initial; f.mode = m0; f.uid = u0; f.gid = g0; C.files[PRELOAD] = f; }
    // what an earlier run that was killed may have left next to the file: its temporary file, with whatever it had written by then (the
    // preload file has changed since, so the left-over may be longer than anything this run writes)
    if ((mh >> 24) % 5 == 0) {
        SFile t; t.mode = 0600; size_t want = (mh >> 32) % 2 ? 9000 : 20 + (mh >> 34) % 300;
        for (int k = 0; t.content.size() < want; k++) t.content += "/stale/left-over/lib" + std::to_string(k) + ".so\n";
        if ((mh >> 40) % 2) t.content.resize(t.content.size() - 7);   // cut in the middle of a path
        C.files[std::string(PRELOAD) + ".snoopy-tmp"] = t; R.probes.set("p_stale_temp_file", true);
    }
    bool ex0 = p.exists; std::string cur0 = p.initial; uint64_t h = 1469598103934665603ULL;
    const bool orig_ex = p.exists; const std::string orig = p.initial;
    bool prev_enable_new = false; std::string before_enable; bool before_enable_ex = false;
    for (size_t i = 0; i < p.ops.size(); i++) {
        const std::string &op = p.ops[i];
        bool last = i + 1 == p.ops.size();
        g_next_sticky = last && p.fault_sticky; g_next_read = last && p.fault_read;
        ActOut o = run_action(op, last ? p.crash_at : -1, last ? p.fault_nth : -1, p.fault_err, p.fault_short);
        bool ex1 = C.files.count(PRELOAD) != 0; std::string now = ex1 ? C.files[PRELOAD].content : "";
        for (auto &e : o.trace) h = fnv(e.k + "|" + e.s + "|" + std::to_string(e.ret) + "|" + std::to_string(e.err) + ";", h);
        h = fnv(now + "#" + std::to_string(o.exit_code) + (o.crashed ? "C" : ""), h);
        R.hash = h;
        if (ex0 && ex1) {
            const SFile &fnow = C.files[PRELOAD];
            if (fnow.mode != m0 || fnow.uid != u0 || fnow.gid != g0) {
                char b[160]; snprintf(b, sizeof b, "%s turned mode %04o owner %u:%u into mode %04o owner %u:%u", op.c_str(), m0, u0, g0, fnow.mode, fnow.uid, fnow.gid);
                R.v = V("file-metadata-changed", std::string(b) + " (the file is replaced, its permissions and ownership belong to it)"); return R;
            }
        }
        if (!ex0 && ex1) { const SFile &fnow = C.files[PRELOAD]; m0 = fnow.mode; u0 = fnow.uid; g0 = fnow.gid; }   // created by this operation: whatever it was created with
        if (p.property == "C20") {
            // atomicity: whatever happened, the file holds the complete old or the complete new content
            Model me = model_enable(ex0, cur0);
            bool is_old = ex1 == ex0 && now == cur0;
            bool ok_new = false;
            if (op == "enable") ok_new = ex1 && now == me.newc && me.may_new;
            else {   // the complete new content of a disable = what the fault-free run produces
                C.files.clear(); C.files[LIBPATH] = lib; if (ex0) { SFile f; f.content = cur0; f.mode = m0; f.uid = u0; f.gid = g0; C.files[PRELOAD] = f; }
                run_action(op, -1, -1, 0, false);
                std::string full = C.files.count(PRELOAD) ? C.files[PRELOAD].content : ""; bool fex = C.files.count(PRELOAD) != 0;
                ok_new = ex1 == fex && now == full;
            }
            R.sig = p.ops[0] + "|" + std::to_string(fnv(orig) % 9973) + "|" + p.extra.gets("mode") + "|" + std::to_string(p.crash_at) + "|" + std::to_string(p.fault_nth) + ":" + std::to_string(p.fault_err) + (p.fault_short ? "s" : "") + (p.fault_sticky ? "*" : "");
            R.nontrivial = o.crashed || o.fault_fired || p.extra.gets("mode") == "census";
            if (o.crashed) R.probes.set("p_crash_fired", true);
            if (o.fault_fired && !p.fault_read) R.probes.set(p.fault_short ? "p_short_write" : p.fault_err == ENOSPC ? "p_enospc" : "p_write_error", true);
            if (o.fault_fired && p.fault_sticky) R.probes.set("p_sticky_fault", true);
            if (o.fault_fired && p.fault_read) R.probes.set("p_read_fault", true);
            if (o.fault_fired && o.crashed) R.probes.set("p_fault_then_crash", true);
            if (p.extra.gets("mode") == "census") { R.probes.set("p_census", true); R.probes.set("census_calls", p.extra.geti("census_calls")); }
            if (!is_old && !ok_new) {
                std::string what = (o.crashed && o.fault_fired) ? "write-type call #" + std::to_string(p.fault_nth) + " failing with errno " + std::to_string(p.fault_err) + ", then killed before simulated call #" + std::to_string(p.crash_at) : o.crashed ? "killed before simulated call #" + std::to_string(p.crash_at) + " of " + std::to_string(p.extra.geti("census_calls")) + " (" + p.extra.gets("census_trace") + ")" : (o.fault_fired && p.fault_read) ? "read call #" + std::to_string(p.fault_nth) + " on the existing file failing with errno " + std::to_string(p.fault_err) : o.fault_fired ? "write-type call #" + std::to_string(p.fault_nth) + (p.fault_short ? " short" : " failing with errno " + std::to_string(p.fault_err)) + (p.fault_sticky ? " and every later one too" : "") : "no fault";
                std::string cls = !ex1 ? "file-missing" : now.empty() ? "file-empty" : (now.size() < cur0.size() && cur0.compare(0, now.size(), now) == 0) ? "file-truncated" : "file-mixed";
                R.v = V(std::string(o.crashed ? "crash:" : "fault:") + cls, op + " on " + showf(ex0, cur0) + ", " + what + ": the preload file holds " + showf(ex1, now) + ", neither the previous nor the complete new content");
                return R;
            }
            if (o.fault_fired && !o.crashed && o.exit_code == 0 && !ok_new && !is_old) { R.v = V("fault-ignored", "failure reported as success"); return R; }
            return R;
        }
        Verdict v;
        if (op == "enable") {
            v = check_enable(ex0, cur0, o, ex1, now);
            Model m = model_enable(ex0, cur0);
            prev_enable_new = ex1 && now == m.newc && !(ex0 == ex1 && cur0 == now); before_enable = cur0; before_enable_ex = ex0;
            if (!v.violated && i > 0 && p.ops[i - 1] == "status") { /* second enable of C18 */ if (!(ex0 == ex1 && cur0 == now)) { bool first_added = false; (void)first_added; } }
        } else if (op == "disable") {
            v = check_disable(ex0, cur0, o, ex1, now);
            // round trip: disable right after a successful enable restores the original (empty or newline-terminated, no mention before)
            if (!v.violated && i > 0 && p.ops[i - 1] == "enable" && prev_enable_new) {
                bool eligible = (before_enable.empty() || before_enable.back() == '\n') && before_enable.find("libsnoopy.so") == std::string::npos;
                if (eligible && now != before_enable) v = V("roundtrip", "enable then disable on " + showf(before_enable_ex, before_enable) + " left " + showf(ex1, now));
            }
        } else {   // status
            bool fnl; int definite = 0; bool own = false; for (auto &l : split_lines(cur0, &fnl)) { LineInfo li = classify(l); if (li.own) own = true; if (li.mention || li.own) definite++; }
            bool says = status_says_enabled(o.out);
            bool any_amb = false; for (auto &l : split_lines(cur0, &fnl)) if (classify(l).ambiguous) any_amb = true;
            if (i > 0 && p.ops[i - 1] == "enable" && own && definite == 1 && !any_amb && !says) v = V("status-after-enable", "after enable the file is " + showf(ex0, cur0) + " but status does not report the entry as present: " + o.out.substr(0, 200));
            if (!own && says) { bool amb = false; for (auto &l : split_lines(cur0, &fnl)) if (classify(l).ambiguous) amb = true; if (!amb) v = V("status-false-positive", "status reports enabled on " + showf(ex0, cur0)); }
            if (ex0 != ex1 || cur0 != now) v = V("status-modified-file", "status changed the file");
        }
        if (v.violated) { R.v = v; return R; }
        ex0 = ex1; cur0 = now;
    }
    // signature: line classes of the initial file + operations
    std::string sig; for (auto &l : split_lines(orig, nullptr)) { LineInfo li = classify(l); sig.push_back(li.comment ? (l.find("libsnoopy.so") != std::string::npos ? 'C' : 'c') : li.own ? (tokens_of(l).size() > 1 ? 'S' : 'O') : li.mention ? 'F' : li.ambiguous ? 'A' : l.empty() ? '_' : 'x'); }
    sig += (orig_ex ? (orig.empty() || orig.back() == '\n' ? "$" : "!") : "0"); for (auto &o : p.ops) sig.push_back(o[0]);
    R.sig = sig; R.nontrivial = !orig.empty() || cur0 != orig;
    for (char c : sig) { std::string k = "p_class_"; k.push_back(c); if (isalpha((unsigned char)c) || c == '_') R.probes.set(k, true); }
    if (p.extra.getb("exhaustive")) R.probes.set("p_exhaustive", true);
    return R;
}

// ------------------------------------------------------------------ CLI
static void out_line(const std::string &s) { std::string l = s + "\n"; fwrite(l.data(), 1, l.size(), stdout); fflush(stdout); }
static std::string slurp(const char *path) { std::string s; FILE *f = fopen(path, "r"); if (!f) return s; char b[65536]; size_t n; while ((n = fread(b, 1, sizeof b, f)) > 0) s.append(b, n); fclose(f); return s; }
static J line_of(const CtlPlan &p, const RunRes &r) {
    J l = J::obj(); l.set("seed", (unsigned long long)p.seed); l.set("violated", r.v.violated); l.set("class", r.v.cls); l.set("detail", r.v.detail);
    char hb[32]; snprintf(hb, sizeof hb, "%016llx", (unsigned long long)r.hash); l.set("hash", hb);
    l.set("sig", r.sig); l.set("nontrivial", r.nontrivial); for (auto &kv : r.probes.o) l.set(kv.first, kv.second);
    l.set("counters", J::obj()); l.set("steps", 0);
    return l;
}
int main(int argc, char **argv) {
    if (argc < 2) return 2;
    std::string cmd = argv[1];
    if (cmd == "run" && argc >= 5) {
        unsigned long long lo = strtoull(argv[3], 0, 10), hi = strtoull(argv[4], 0, 10); std::string tier = argc > 5 ? argv[5] : "quick";
        for (unsigned long long s = lo; s < hi; s++) {
            { char b[64]; snprintf(b, sizeof b, "{\"start\":%llu}", s); out_line(b); }
            { char b[64]; int n = snprintf(b, sizeof b, "=== seed %llu\n", s); if (write(2, b, (size_t)n) < 0) {} }   // sanitizer reports are attributed to their run through this marker
            CtlPlan p = gen_plan(argv[2], s, tier);
            RunRes r = run_plan(p);
            J l = line_of(p, r); if (r.v.violated) l.set("plan", p.to_json());
            out_line(l.dump());
        }
        return 0;
    }
    if (cmd == "gen" && argc >= 4) { out_line(gen_plan(argv[2], strtoull(argv[3], 0, 10), argc > 4 ? argv[4] : "quick").to_json().dump()); return 0; }
    if (cmd == "trace" && argc >= 3) {   // simulated system calls of the fault-free run of a stored plan (conformance check)
        J j; if (!J::parse(slurp(argv[2]), j)) return 2;
        CtlPlan p; p.from_json(j);
        C.files.clear(); C.tmp_counter = 0; C.next_fd = 10000; SFile lib; lib.content = "ELF"; C.files[LIBPATH] = lib; if (p.exists) { SFile f; f.content = p.initial; C.files[PRELOAD] = f; }
        ActOut o = run_action(p.ops[0], -1, -1, 0, false);
        std::string t; for (auto &e : o.trace) t += e.k + " "; out_line(t);
        return 0;
    }
    if (cmd == "replay" && argc >= 3) {
        J j; if (!J::parse(slurp(argv[2]), j)) return 2;
        CtlPlan p; p.from_json(j);
        RunRes r = run_plan(p); out_line(line_of(p, r).dump());
        return r.v.violated ? 1 : 0;
    }
    return 2;
}
uint64_t fnv(const std::string &s, uint64_t h) { for (unsigned char c : s) { h ^= c; h *= 1099511628211ULL; } return h; }
