// Seeded generators shared by the checks.
#pragma once
#include "sim.hpp"

World gen_world(Rng &r);                                   // a complete simulated OS state
World base_world();                                        // fixed plain world (root, no tty, default tree)
uint32_t gen_id(Rng &r);
std::string gen_token(Rng &r, size_t minlen, size_t maxlen, int cls); // cls 0 safe ascii, 1 printable incl. spaces, 2 any byte 1..255 except '\n'
std::string gen_comm(Rng &r);
ExecOp gen_exec(Rng &r, const std::string &marker, int size_class); // size_class 0 small, 1 medium, 2 large, 3 huge
void gen_outcome(Rng &r, ExecOp &e, bool allow_success);

struct CfgSpec {                                           // structured configuration; render() produces INI text
    bool has_format = false; std::string format;
    bool has_chain = false; std::string chain;
    bool has_output = false; std::string output;
    bool has_facility = false; std::string facility;
    bool has_level = false; std::string level;
    bool has_ident = false; std::string ident;
    bool has_errlog = false; std::string errlog;
    bool has_dsmax = false; std::string dsmax;
    bool has_logmax = false; std::string logmax;
    std::string render(Rng &r, bool plain = false) const;
};
std::string quote_if_needed(Rng &r, const std::string &v, bool plain);
std::string gen_output_value(Rng &r, const World &w, int *cls = nullptr);  // "file:/log/x", "socket:/run/s", "devlog", ...
extern const char *FAC_NAMES[20];
extern const char *LEV_NAMES[8];
Op op_setconfig(const std::string &bytes);
Op op_exec(const ExecOp &e);
