// Internal interface between the simulated kernel (core.cpp), the libc seam
// (seam.cpp) and the scheduler (sched.cpp).
#pragma once
#include "sim.hpp"
#include <pthread.h>
#include <sys/types.h>

#define SIMFD_BASE 10000

extern "C" {
extern volatile __thread int t_in_sut;     // the calling thread is executing library code of a wrapped call
extern volatile __thread int t_in_sim;     // ... and is currently inside the simulator (interposer body)
extern volatile __thread int t_thr;        // simulated thread index
long raw_syscall6(long n, long a, long b, long c, long d, long e, long f);
}

struct SimScope {                           // marks "inside the simulator"; also hides harness work from TSan
    SimScope(); ~SimScope();
};
extern uintptr_t g_sut_lo, g_sut_hi;          // text range of libsnoopy.so
// A call is simulated only when it is made by library code of a wrapped call: the thread is inside the library,
// not inside the simulator, and the immediate caller is libsnoopy.so itself (the sanitizer runtimes also reach
// these definitions through their PLT, e.g. when symbolizing a report, and must get the real thing).
#define sim_active() (t_in_sut && !t_in_sim && (uintptr_t)__builtin_return_address(0) - g_sut_lo < g_sut_hi - g_sut_lo)

struct OpenDesc {
    int fd = 0, id = 0;
    int kind = 0;                           // 0 file node, 1 socket, 2 stdout, 3 stderr
    std::string path; long flags = 0; long off = 0;
    // socket
    int sock_type = 0; bool nonblock = false, cloexec = false, connected = false; std::string peer;
    int opi = -1, thr = 0;
};

struct OpState {                            // per wrapped call (per thread)
    const ExecOp *op = nullptr; int opi = -1;
    std::map<std::string, int> kind_count;
    ExecObs *obs = nullptr;
    std::vector<std::string> argv_snap, envp_snap, environ_snap; bool argv_null = false, envp_null = false;
    std::vector<char *> argv_c, envp_c;
    char **environ_ptr = nullptr;
    jmp_buf exec_jmp; bool jmp_armed = false;
    bool after_exec = false;                // the recorder has returned to the library
};
extern __thread OpState *t_op;

struct Sim {
    World w;
    std::vector<Ev> hist;
    std::map<int, OpenDesc> fds;
    int next_fd = SIMFD_BASE, next_descid = 1;
    long steps = 0, step_cap = 200000;
    std::string abort_class, abort_detail;
    std::map<std::string, long> counters;
    bool multi = false;                     // scheduler active
    jmp_buf run_jmp; bool run_jmp_armed = false;
    int seq = 0;
    // atfork handlers registered by the library
    struct Atfork { void (*prepare)(); void (*parent)(); void (*child)(); };
    std::vector<Atfork> atfork;
    bool sigpipe_ignored = false;
    std::map<std::string, std::map<int, int>> flocks;   // advisory whole-file locks: path -> (open file description -> 1 shared / 2 exclusive)
};
extern Sim G;

// kernel
Ev &sim_event(const char *kind, const std::string &s = "");
void sim_step();                            // one intercepted call: step cap, clock
bool sim_fault(const char *kind, Fault &out);
int k_open(const char *path, long flags, int mode);     // returns fd or -errno
long k_read(int fd, void *buf, size_t n);
long k_write(int fd, const void *buf, size_t n);
long k_lseek(int fd, long off, int whence);
int k_close(int fd);
int k_flock(int fd, int op);
int k_socket(int domain, int type, int proto);
int k_connect(int fd, const void *addr, unsigned len);
long k_send(int fd, const void *buf, size_t n, int flags);
FILE *k_fopen(const char *path, const char *mode);
FILE *k_fdopen(int fd, const char *mode);
int k_fileno(FILE *f);                     // descriptor behind a simulated stream, -1 for any other stream
void sim_abort(const char *cls, const std::string &detail) __attribute__((noreturn));
Snap take_snapshot();
void sut_write(void *dst, const void *src, size_t n);   // copy into memory owned by the library, visible to TSan as a write by this thread

// scheduler (sched.cpp)
enum { SP_ONCE, SP_LOCK_PRE, SP_LOCK_POST, SP_UNLOCK_PRE, SP_UNLOCK_POST, SP_IO, SP_CALL_ENTER, SP_CALL_EXIT, SP_EXEC };
void sched_point(int kind);
int sched_mutex_init(pthread_mutex_t *m, const pthread_mutexattr_t *a);
int sched_mutex_lock(pthread_mutex_t *m);
int sched_mutex_trylock(pthread_mutex_t *m);
int sched_mutex_unlock(pthread_mutex_t *m);
int sched_once(pthread_once_t *o, void (*fn)());
int sched_rw_lock(void *rw, bool write, bool try_only);   // pthread_rwlock_t / pthread_spinlock_t (as a writer-only lock) owned by the scheduler
int sched_rw_unlock(void *rw);
int sched_rw_init(void *rw, size_t size);
void sched_block_on(const void *key, const std::string &what);   // park the calling thread until sched_wake_all(key); aborts the run when nobody can
void sched_wake_all(const void *key);
void run_batch(const Plan &plan, int opi, const Op &op, RunResult &r);
void run_forkexec(const Plan &plan, int opi, const Op &op, RunResult &r);
int sim_fork();                             // library-visible fork(): handlers + real fork

// run (core.cpp)
void exec_call(const ExecOp &op, int opi, ExecObs &obs); // one wrapped call on the calling thread
void lib_state_restore();
void heap_reset();
void heap_counts(long &allocs, long &bytes);
void sim_tzset_canonical();
std::string host_strftime(const World &w, const std::string &fmt, int64_t t);
std::vector<std::string> host_strftime_all(const World &w, const std::string &fmt, int64_t t);
