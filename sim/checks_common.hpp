#pragma once
#include "check.hpp"
#include "gen.hpp"

struct CallView { int opi; const ExecOp *op; World w; size_t op_index; int batch_threads = 0; };
// Exec operations of a plan with the simulated OS state each one starts from
// (SetConfig / Mutate applied; effects of the calls themselves are not tracked).
std::vector<CallView> calls_of(const Plan &p);
const ExecObs *obs_of(const RunResult &r, int opi);
Verdict ok();
Verdict bad(const std::string &cls, const std::string &detail);
std::string show(const std::string &s, size_t max = 120);   // printable excerpt
// generic C01 pass-through oracle for one call (used by several checks as a side condition)
Verdict passthrough_oracle(const ExecOp &op, const ExecObs &o, const RunResult &r);
struct Reg { Reg(const Check &c) { register_check(c); } };
std::string gen_known_config(Rng &r, const World &w, CfgSpec *out = nullptr); // config whose record the model predicts exactly
std::string gen_modelled_format(Rng &r, const std::string &marker, size_t maxlen = 400);
std::string gen_chain(Rng &r, const World &w, int maxel = 4);

struct RecJudge { Verdict v; bool conclusive = false; std::string sig; Expected exp; };
RecJudge judge_record(const CallView &cv, const RunResult &r, bool require_before_exec = true);
