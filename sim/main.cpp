// simlib — command line front end of the simulator.
//   simlib run <property> <seed_lo> <seed_hi> [tier]   one JSON line per seed on stdout (fd 3 if open)
//   simlib gen <property> <seed> [tier]                print the generated plan
//   simlib replay <file>                               interpret a stored plan literally
#include "check.hpp"
#include <fcntl.h>
#include <signal.h>
#include <stdio.h>
#include <stdlib.h>
#include <string.h>
#include <unistd.h>

extern "C" {
// sanitizer defaults: a report ends the worker with a recognisable status
// Every wrapped call is entered with whatever errno the caller's last libc call left behind: half of the calls of a plan get a stale
// value (from its own random stream, so that the generators' plans stay what they were), the rest 0.
static void assign_entry_errnos(Plan &p) {
    Rng r(p.seed * 2654435761ULL + 97);
    static const int vals[] = {2, 34, 4, 11, 22, 12, 25, 3, 17, 13, 9, 28, 110, 75};   // ENOENT ERANGE EINTR EAGAIN EINVAL ENOMEM ENOTTY ESRCH EEXIST EACCES EBADF ENOSPC ETIMEDOUT EOVERFLOW
    auto one = [&](ExecOp &e) { e.entry_errno = r.chance(1, 2) ? vals[r.below(sizeof vals / sizeof *vals)] : 0; };
    for (auto &o : p.ops) { if (o.op == "Exec" || o.op == "ForkExec") one(o.ex); for (auto &t : o.threads) for (auto &e : t) one(e); }
}
__attribute__((used, visibility("default"))) const char *__asan_default_options() { return "exitcode=77:color=never:halt_on_error=0:detect_leaks=0:abort_on_error=0:allocator_may_return_null=1:detect_stack_use_after_return=0:handle_segv=1"; }
__attribute__((used, visibility("default"))) const char *__ubsan_default_options() { return "halt_on_error=0:exitcode=77:print_stacktrace=1:color=never"; }
__attribute__((used, visibility("default"))) const char *__tsan_default_options() { return "exitcode=0:color=never:halt_on_error=0:report_signal_unsafe=0:suppress_equal_stacks=0:suppress_equal_addresses=0:history_size=4:second_deadlock_stack=1"; }
}

extern "C" void __asan_set_error_report_callback(void (*)(const char *)) __attribute__((weak));
static volatile int g_asan_reported = 0;
static void on_asan_report(const char *) { g_asan_reported = 1; }
static int g_out = 1;
static void out_line(const std::string &s) {
    std::string l = s + "\n"; size_t off = 0;
    while (off < l.size()) { long n = raw_syscall6(1 /*write*/, g_out, (long)(l.data() + off), (long)(l.size() - off), 0, 0, 0); if (n <= 0) break; off += (size_t)n; }
}
static volatile unsigned long long g_cur_seed;
static void on_alarm(int) {
    char b[160]; int n = snprintf(b, sizeof b, "{\"seed\":%llu,\"violated\":true,\"class\":\"hang\",\"detail\":\"wall-clock watchdog fired inside a run\",\"fatal\":true}\n", g_cur_seed);
    raw_syscall6(1, g_out, (long)b, n, 0, 0, 0);
    _exit(78);
}

static std::string slurp(const char *path) {
    std::string s; FILE *f = fopen(path, "r"); if (!f) return s;
    char b[65536]; size_t n; while ((n = fread(b, 1, sizeof b, f)) > 0) s.append(b, n);
    fclose(f); return s;
}

static std::vector<int> g_last_schedule;
static J run_one(const Check &c, const Plan &plan, bool full) {
    RunResult r = sim_run(plan);
    g_last_schedule = r.schedule;
    J line = J::obj();
    line.set("seed", (unsigned long long)plan.seed);
    Verdict v;
    if (!r.abort_class.empty()) {
        // deadlock / hang found by the simulator itself: attributed by the check (it may not be its property)
        v = c.on_abort ? c.on_abort(plan, r) : Verdict{true, r.abort_class, r.abort_detail};
        line.set("fatal", true);
    } else v = c.oracle(plan, r);
    line.set("violated", v.violated); line.set("class", v.cls); line.set("detail", v.detail);
    char hb[32]; snprintf(hb, sizeof hb, "%016llx", (unsigned long long)r.hash); line.set("hash", hb);
    if (c.describe) c.describe(plan, r, line);
    J cn = J::obj(); for (auto &p : r.counters) cn.set(p.first, (long long)p.second); line.set("counters", cn);
    line.set("steps", (long long)r.hist.size());
    line.set("sim_us", (long long)(r.end_world.clock_us - plan.world.clock_us));
    if (full) {
        J hs = J::arr();
        for (auto &e : r.hist) { J o = J::obj(); o.set("seq", e.seq); o.set("thr", e.thr); o.set("op", e.opi); o.set("k", e.k); if (!e.s.empty()) o.set("s", e.s); o.set("a", e.a); o.set("b", e.b); o.set("c", e.c); o.set("ret", e.ret); if (e.err) o.set("err", e.err); if (e.mark) o.set("mark", e.mark); if (!e.data.empty()) o.set("data", e.data.size() > 300 ? e.data.substr(0, 300) + "..." : e.data); hs.push(o); }
        line.set("history", hs);
        if (!r.schedule.empty()) { J s = J::arr(); for (int x : r.schedule) s.push(J(x)); line.set("schedule", s); }
        if (!r.child.is_null()) line.set("child", r.child);
        if (!r.cli_conf.is_null()) line.set("cli_conf", r.cli_conf);
    }
    return line;
}

int main(int argc, char **argv) {
    if (argc < 2) { fprintf(stderr, "usage: simlib run|gen|replay ...\n"); return 2; }
    if (fcntl(3, F_GETFD) != -1) g_out = 3;
    const char *v = getenv("SIM_VARIANT"); if (v) g_variant = strdup(v);
    g_thread_safe_build = strstr(g_variant, "nots") == nullptr;
    std::string cmd = argv[1];
    signal(SIGALRM, on_alarm);
    sim_global_init();
    if (__asan_set_error_report_callback) __asan_set_error_report_callback(on_asan_report);
    if (cmd == "run" && argc >= 5) {
        const Check *c = find_check(argv[2]);
        if (!c) { fprintf(stderr, "unknown check %s\n", argv[2]); return 2; }
        unsigned long long lo = strtoull(argv[3], 0, 10), hi = strtoull(argv[4], 0, 10);
        std::string tier = argc > 5 ? argv[5] : "quick";
        for (unsigned long long s = lo; s < hi; s++) {
            g_cur_seed = s;
            { char b[64]; int n = snprintf(b, sizeof b, "{\"start\":%llu}", s); out_line(std::string(b, (size_t)n)); }
            { char b[64]; int n = snprintf(b, sizeof b, "=== seed %llu\n", s); raw_syscall6(1, 2, (long)b, n, 0, 0, 0); }
            alarm(120);
            Plan p = c->gen(s, tier); assign_entry_errnos(p);
            J line = run_one(*c, p, false);
            alarm(0);
            if (line.getb("violated") || getenv("SIM_PLANS")) {
                // the replay file carries the schedule explicitly (every choice the scheduler made), so that it can be minimised
                if (g_last_schedule.size()) for (auto &o : p.ops) if (o.op == "Batch" && !o.have_schedule) { o.have_schedule = true; o.schedule = g_last_schedule; }
                line.set("plan", p.to_json());
            }
            out_line(line.dump());
            if (line.getb("fatal") || line.getb("violated")) return line.getb("fatal") ? 79 : 0 + 76; // state may be damaged: let the driver restart us
            if (g_asan_reported) return 75;   // the run went on after a memory error: do not trust this process any further
        }
        return 0;
    }
    if (cmd == "gen" && argc >= 4) {
        const Check *c = find_check(argv[2]);
        if (!c) return 2;
        Plan p = c->gen(strtoull(argv[3], 0, 10), argc > 4 ? argv[4] : "quick"); assign_entry_errnos(p);
        out_line(p.to_json().dump());
        return 0;
    }
    if (cmd == "replay" && argc >= 3) {
        J j; std::string text = slurp(argv[2]);
        if (!J::parse(text, j)) { fprintf(stderr, "cannot parse %s\n", argv[2]); return 2; }
        Plan p; p.from_json(j);
        const Check *c = find_check(p.property.c_str());
        if (!c) { fprintf(stderr, "unknown check %s\n", p.property.c_str()); return 2; }
        g_cur_seed = p.seed; alarm(120);
        J line = run_one(*c, p, getenv("SIM_FULL") != nullptr);
        alarm(0);
        out_line(line.dump());
        return line.getb("violated") ? 1 : 0;
    }
    fprintf(stderr, "bad arguments\n");
    return 2;
}
