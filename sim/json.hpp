// Minimal JSON value with deterministic output. Strings are byte strings: bytes
// outside printable ASCII are written as \u00XX and read back as single bytes,
// so arbitrary (NUL-free or not) byte strings survive a round trip.
#pragma once
#include <cstdint>
#include <cstdio>
#include <cstdlib>
#include <cstring>
#include <string>
#include <utility>
#include <vector>

struct J {
    enum T { NUL, BOOL, INT, STR, ARR, OBJ } t = NUL;
    bool b = false;
    int64_t i = 0;
    std::string s;
    std::vector<J> a;
    std::vector<std::pair<std::string, J>> o;

    J() {}
    J(bool v) : t(BOOL), b(v) {}
    J(int v) : t(INT), i(v) {}
    J(unsigned v) : t(INT), i(v) {}
    J(long v) : t(INT), i(v) {}
    J(long long v) : t(INT), i(v) {}
    J(unsigned long v) : t(INT), i((int64_t)v) {}
    J(unsigned long long v) : t(INT), i((int64_t)v) {}
    J(const char *v) : t(STR), s(v) {}
    J(const std::string &v) : t(STR), s(v) {}
    static J arr() { J j; j.t = ARR; return j; }
    static J obj() { J j; j.t = OBJ; return j; }

    bool is_null() const { return t == NUL; }
    J &push(const J &v) { if (t != ARR) { t = ARR; } a.push_back(v); return a.back(); }
    J &set(const std::string &k, const J &v) {
        if (t != OBJ) t = OBJ;
        for (auto &p : o) if (p.first == k) { p.second = v; return p.second; }
        o.emplace_back(k, v); return o.back().second;
    }
    const J *find(const std::string &k) const {
        if (t != OBJ) return nullptr;
        for (auto &p : o) if (p.first == k) return &p.second;
        return nullptr;
    }
    J *find(const std::string &k) {
        if (t != OBJ) return nullptr;
        for (auto &p : o) if (p.first == k) return &p.second;
        return nullptr;
    }
    bool has(const std::string &k) const { return find(k) != nullptr; }
    const J &at(const std::string &k) const { static J nul; const J *p = find(k); return p ? *p : nul; }
    int64_t geti(const std::string &k, int64_t d = 0) const { const J *p = find(k); return (p && p->t == INT) ? p->i : (p && p->t == BOOL ? (int64_t)p->b : d); }
    bool getb(const std::string &k, bool d = false) const { const J *p = find(k); return (p && p->t == BOOL) ? p->b : (p && p->t == INT ? p->i != 0 : d); }
    std::string gets(const std::string &k, const std::string &d = "") const { const J *p = find(k); return (p && p->t == STR) ? p->s : d; }

    static void dump_str(const std::string &s, std::string &out) {
        out.push_back('"');
        for (unsigned char c : s) {
            if (c == '"') out += "\\\"";
            else if (c == '\\') out += "\\\\";
            else if (c == '\n') out += "\\n";
            else if (c == '\t') out += "\\t";
            else if (c == '\r') out += "\\r";
            else if (c < 0x20 || c >= 0x7f) { char b[8]; snprintf(b, sizeof b, "\\u%04x", c); out += b; }
            else out.push_back((char)c);
        }
        out.push_back('"');
    }
    void dump(std::string &out) const {
        switch (t) {
        case NUL: out += "null"; break;
        case BOOL: out += b ? "true" : "false"; break;
        case INT: out += std::to_string(i); break;
        case STR: dump_str(s, out); break;
        case ARR:
            out.push_back('[');
            for (size_t k = 0; k < a.size(); k++) { if (k) out.push_back(','); a[k].dump(out); }
            out.push_back(']');
            break;
        case OBJ:
            out.push_back('{');
            for (size_t k = 0; k < o.size(); k++) {
                if (k) out.push_back(',');
                dump_str(o[k].first, out); out.push_back(':'); o[k].second.dump(out);
            }
            out.push_back('}');
            break;
        }
    }
    std::string dump() const { std::string s; dump(s); return s; }

    // ---- parser -------------------------------------------------------
    struct P {
        const char *p, *e; bool ok = true;
        void ws() { while (p < e && (*p == ' ' || *p == '\n' || *p == '\t' || *p == '\r')) p++; }
        J val() {
            ws();
            if (p >= e) { ok = false; return J(); }
            if (*p == '{') {
                J j = J::obj(); p++; ws();
                if (p < e && *p == '}') { p++; return j; }
                while (ok) {
                    ws(); if (p >= e || *p != '"') { ok = false; break; }
                    std::string k = str(); ws();
                    if (p >= e || *p != ':') { ok = false; break; }
                    p++;
                    J v = val(); j.o.emplace_back(k, std::move(v)); ws();
                    if (p < e && *p == ',') { p++; continue; }
                    if (p < e && *p == '}') { p++; break; }
                    ok = false;
                }
                return j;
            }
            if (*p == '[') {
                J j = J::arr(); p++; ws();
                if (p < e && *p == ']') { p++; return j; }
                while (ok) {
                    j.a.push_back(val()); ws();
                    if (p < e && *p == ',') { p++; continue; }
                    if (p < e && *p == ']') { p++; break; }
                    ok = false;
                }
                return j;
            }
            if (*p == '"') { return J(str()); }
            if (!strncmp(p, "true", 4)) { p += 4; return J(true); }
            if (!strncmp(p, "false", 5)) { p += 5; return J(false); }
            if (!strncmp(p, "null", 4)) { p += 4; return J(); }
            char *end; long long v = strtoll(p, &end, 10);
            if (end == p) { ok = false; return J(); }
            // tolerate floats by truncation
            if (end < e && (*end == '.' || *end == 'e' || *end == 'E')) { double d = strtod(p, &end); v = (long long)d; }
            p = end; return J(v);
        }
        std::string str() {
            std::string s; p++;
            while (p < e && *p != '"') {
                if (*p == '\\' && p + 1 < e) {
                    p++;
                    switch (*p) {
                    case 'n': s.push_back('\n'); break;
                    case 't': s.push_back('\t'); break;
                    case 'r': s.push_back('\r'); break;
                    case 'b': s.push_back('\b'); break;
                    case 'f': s.push_back('\f'); break;
                    case 'u': {
                        unsigned v = 0;
                        if (p + 4 < e) { char h[5] = {p[1], p[2], p[3], p[4], 0}; v = (unsigned)strtoul(h, nullptr, 16); p += 4; }
                        if (v < 0x100) s.push_back((char)v);
                        else if (v < 0x800) { s.push_back((char)(0xC0 | (v >> 6))); s.push_back((char)(0x80 | (v & 0x3F))); }
                        else { s.push_back((char)(0xE0 | (v >> 12))); s.push_back((char)(0x80 | ((v >> 6) & 0x3F))); s.push_back((char)(0x80 | (v & 0x3F))); }
                        break; }
                    default: s.push_back(*p);
                    }
                    p++;
                } else s.push_back(*p++);
            }
            if (p < e) p++; else ok = false;
            return s;
        }
    };
    static bool parse(const std::string &text, J &out) {
        P ps{text.data(), text.data() + text.size()};
        out = ps.val(); ps.ws();
        return ps.ok;
    }
};

static inline J jstrs(const std::vector<std::string> &v) { J a = J::arr(); for (auto &s : v) a.push(J(s)); return a; }
static inline std::vector<std::string> jstrs(const J &a) { std::vector<std::string> v; for (auto &e : a.a) v.push_back(e.s); return v; }
