// Seeded scheduler: caller threads are real pthreads, exactly one runs at a time.
// Handoff uses raw futex system calls so that no sanitizer sees it (no
// happens-before edges are created by the scheduler itself).
// This file must be compiled WITHOUT -fsanitize=thread.
#include "core.hpp"
#include <errno.h>
#include <linux/futex.h>
#include <signal.h>
#include <fcntl.h>
#include <stdio.h>
#include <string.h>
#include <sys/syscall.h>
#include <sys/wait.h>
#include <unistd.h>

extern "C" {
void __tsan_acquire(void *) __attribute__((weak));
void __tsan_release(void *) __attribute__((weak));
}

enum { TS_UNUSED, TS_RUNNABLE, TS_BLOCKED, TS_DONE, TS_GONE };
struct SThread {
    int state = TS_UNUSED;
    volatile int futex = 0;
    pthread_t th;
    const void *blocked_on = nullptr;
    int points = 0;
    bool in_lib = false;
    int prio = 0;
    const std::vector<ExecOp> *calls = nullptr;
    int first_opi = 0;
    std::vector<ExecObs> *obs = nullptr;
};
#define MAXT 66
static struct Sched {
    int n = 0;
    SThread t[MAXT];
    Rng rng{1};
    int policy = 0;
    std::vector<int> trace;
    std::vector<int> replay; size_t rpos = 0; bool have_replay = false;
    long total_points = 0;
    // PCT
    std::vector<long> change_points;
    // long park
    int park_thr = -1, park_point = -1; bool parked = false;
    // ForkExec
    bool fork_mode = false; int fork_point = 0; int phase = 0;
    int app_idx = -1;
    bool fork_window = false, in_prepare = false, window_used = false; int cur_kind = -1;
    int extra_point[MAXT] = {0}; bool extra_parked[MAXT] = {false}; bool extras_released = false;
    volatile int main_futex = 0;
    int max_overlap = 0, blocked_events = 0;
    bool aborting = false;
    volatile int started = 0;       // threads that have finished starting up (a thread still in its start-up may hold allocator locks a forked child would inherit)
} S;

static void fwait(volatile int *w) {
    while (__atomic_load_n(w, __ATOMIC_ACQUIRE) == 0) raw_syscall6(SYS_futex, (long)w, FUTEX_WAIT, 0, 0, 0, 0);
    __atomic_store_n(w, 0, __ATOMIC_RELEASE);
}
static void fwake(volatile int *w) {
    __atomic_store_n(w, 1, __ATOMIC_RELEASE);
    raw_syscall6(SYS_futex, (long)w, FUTEX_WAKE, 1, 0, 0, 0);
}

void sched_abort_park() {
    // a violation that ends the run (deadlock, hang): hand control to the harness thread, never return
    S.aborting = true;
    t_in_sut = 0; t_in_sim = 0;
    if (t_thr == 0 && !S.fork_mode) { /* not a scheduled thread */ }
    fwake(&S.main_futex);
    for (;;) { volatile int z = 0; raw_syscall6(SYS_futex, (long)&z, FUTEX_WAIT, 0, 0, 0, 0); }
}

bool g_sched_hint_close = false;
static bool runnable(int i) {
    if (S.t[i].state != TS_RUNNABLE) return false;
    if (S.parked && i == S.park_thr) return false;
    return true;
}

static int choose(int me) {
    std::vector<int> cand;
    for (int i = 0; i < S.n; i++) if (runnable(i)) cand.push_back(i);
    if (cand.empty() && S.parked) { S.parked = false; S.park_thr = -1; for (int i = 0; i < S.n; i++) if (runnable(i)) cand.push_back(i); }
    if (cand.empty()) return -1;
    int pick = -1;
    if (S.fork_mode) {
        // further parent threads (2..n-1) first run to their park points inside the library; then thread 1 (B) runs up to
        // its fork point; then thread 0 (A, the forker) whenever it can; then everybody else finishes
        auto avail = [&](int i) { return runnable(i) && !(S.extra_parked[i] && !S.extras_released); };
        // the window between the prepare and the parent handler: the forking thread holds what prepare took; let B run into it once
        if (S.fork_window && S.in_prepare && !S.window_used && me == 0 && S.cur_kind == SP_LOCK_POST && avail(1)) { S.window_used = true; S.trace.push_back(1); return 1; }
        for (int i = 2; i < S.n && pick < 0 && !S.extras_released; i++)
            if (S.t[i].state == TS_RUNNABLE && !S.extra_parked[i]) { if (S.t[i].points >= S.extra_point[i]) S.extra_parked[i] = true; else pick = i; }
        if (pick < 0) {
            if (S.phase == 0) pick = avail(1) ? 1 : -1;
            else pick = avail(0) ? 0 : avail(1) ? 1 : -1;
        }
        if (pick < 0) {   // the preferred thread cannot run: let the parked ones go on (the forker may be waiting for a mutex they hold)
            S.extras_released = true;
            for (int c : cand) if (pick < 0) pick = c;
        }
        if (S.t[0].state == TS_DONE) S.extras_released = true;
        S.trace.push_back(pick);
        return pick;
    }
    // a library thread is about to close a descriptor: a good moment for the application thread to open one (if the number was already
    // free - a second close - the application gets exactly that number)
    if (!S.have_replay && g_sched_hint_close && S.app_idx >= 0 && me != S.app_idx && runnable(S.app_idx) && S.rng.chance(1, 2)) {
        S.trace.push_back(S.app_idx);
        return S.app_idx;
    }
    if (S.have_replay) {
        if (S.rpos < S.replay.size()) { int c = S.replay[S.rpos++]; if (c >= 0 && c < S.n && runnable(c)) pick = c; }
        if (pick < 0) pick = (me >= 0 && runnable(me)) ? me : cand[0];
        S.trace.push_back(pick);
        return pick;
    }
    if (S.policy == 3) {           // single-park enumeration: the parked thread runs alone up to its point, the others run one after another
        if (!S.parked && S.park_thr >= 0 && runnable(S.park_thr) && S.t[S.park_thr].points < S.park_point) pick = S.park_thr;
        else pick = (me >= 0 && runnable(me)) ? me : cand[0];
        S.trace.push_back(pick);
        return pick;
    }
    if (S.policy == 1) {           // PCT: highest priority runnable; priorities drop at the change points
        for (long cp : S.change_points) if (cp == S.total_points && me >= 0) S.t[me].prio = -(int)S.total_points;
        int best = cand[0];
        for (int c : cand) if (S.t[c].prio > S.t[best].prio) best = c;
        pick = best;
    } else {                       // random walk (also used around a long park)
        if (me >= 0 && runnable(me) && S.rng.chance(1, 2)) pick = me;
        else pick = cand[S.rng.below(cand.size())];
    }
    S.trace.push_back(pick);
    return pick;
}

static void switch_to(int me, int next) {
    if (next == me) return;
    fwake(&S.t[next].futex);
    fwait(&S.t[me].futex);
}

void sched_point(int kind) {
    if (!G.multi || S.aborting) return;
    SimScope harness_scope;
    int me = t_thr;
    S.t[me].points++; S.total_points++;
    S.cur_kind = kind;
    if (kind == SP_CALL_ENTER) S.t[me].in_lib = true;
    if (kind == SP_CALL_EXIT) S.t[me].in_lib = false;
    int ov = 0; for (int i = 0; i < S.n; i++) if (S.t[i].in_lib) ov++;
    if (ov > S.max_overlap) S.max_overlap = ov;
    if (S.fork_mode && me == 1 && S.phase == 0 && S.t[1].points == S.fork_point) S.phase = 1;
    if ((S.policy == 2 || S.policy == 3) && !S.parked && me == S.park_thr && S.t[me].points == S.park_point) {
        bool others = false; for (int i = 0; i < S.n; i++) if (i != me && S.t[i].state == TS_RUNNABLE) others = true;
        if (others) { S.parked = true; G.counters["long-park-used"]++; }
    }
    int next = choose(me);
    if (next < 0) sim_abort("deadlock", "no runnable thread at a scheduling point");
    switch_to(me, next);
}

// ------------------------------------------------------------------ mutex / once owned by the scheduler
struct SimMutex { uint32_t magic; int32_t owner; uint32_t count; uint32_t recursive; };
#define SM_MAGIC 0x51704d78u
static SimMutex *sm(pthread_mutex_t *m) { return (SimMutex *)m; }

int sched_mutex_init(pthread_mutex_t *m, const pthread_mutexattr_t *a) {
    int type = PTHREAD_MUTEX_NORMAL;
    if (a) pthread_mutexattr_gettype(a, &type);
    memset(m, 0, sizeof *m);
    SimMutex *s = sm(m); s->magic = SM_MAGIC; s->owner = -1; s->count = 0; s->recursive = type == PTHREAD_MUTEX_RECURSIVE;
    sim_event("mutex_init").a = s->recursive;
    return 0;
}
static void sm_adopt(SimMutex *s) { if (s->magic != SM_MAGIC) { s->magic = SM_MAGIC; s->owner = -1; s->count = 0; s->recursive = 0; } }

int sched_mutex_lock(pthread_mutex_t *m) {
    SimMutex *s = sm(m); sm_adopt(s);
    sim_step();
    sched_point(SP_LOCK_PRE);
    int me = t_thr;
    for (;;) {
        if (s->owner == -1) { s->owner = me; s->count = 1; break; }
        if (s->owner == me) {
            if (s->recursive) { s->count++; break; }
            sim_abort("deadlock", "thread relocks a non-recursive mutex it owns");
        }
        // held by somebody else
        G.counters["blocked-on-mutex"]++; S.blocked_events++;
        if (!G.multi) sim_abort("deadlock", "mutex is owned by thread " + std::to_string(s->owner) + " which does not exist in this process");
        if (S.t[s->owner].state == TS_GONE || S.t[s->owner].state == TS_DONE)
            sim_abort("deadlock", "mutex is owned by thread " + std::to_string(s->owner) + " which " + (S.t[s->owner].state == TS_GONE ? "does not exist in this process (fork)" : "has finished"));
        S.t[me].state = TS_BLOCKED; S.t[me].blocked_on = m;
        int next = choose(me);
        if (next < 0) sim_abort("deadlock", "all threads blocked on the registry mutex");
        switch_to(me, next);
    }
    if (__tsan_acquire) __tsan_acquire(m);
    sched_point(SP_LOCK_POST);
    return 0;
}
int sched_mutex_trylock(pthread_mutex_t *m) {
    SimMutex *s = sm(m); sm_adopt(s);
    sim_step();
    int me = t_thr;
    if (s->owner == -1) { s->owner = me; s->count = 1; if (__tsan_acquire) __tsan_acquire(m); return 0; }
    if (s->owner == me && s->recursive) { s->count++; return 0; }
    return EBUSY;
}
int sched_mutex_unlock(pthread_mutex_t *m) {
    SimMutex *s = sm(m); sm_adopt(s);
    sim_step();
    int me = t_thr;
    if (s->owner != me) { sim_event("mutex_unlock_not_owner"); return EPERM; }
    sched_point(SP_UNLOCK_PRE);
    if (--s->count == 0) {
        if (__tsan_release) __tsan_release(m);
        s->owner = -1;
        for (int i = 0; i < S.n; i++) if (S.t[i].state == TS_BLOCKED && S.t[i].blocked_on == m) { S.t[i].state = TS_RUNNABLE; S.t[i].blocked_on = nullptr; }
    }
    sched_point(SP_UNLOCK_POST);
    return 0;
}

// generic wait for something another thread (or nobody) will release: used for advisory file locks
void sched_block_on(const void *key, const std::string &what) {
    if (!G.multi) sim_abort("deadlock", what + ": nobody in this process can release it");
    int me = t_thr;
    G.counters["blocked-on-lock"]++;
    S.t[me].state = TS_BLOCKED; S.t[me].blocked_on = key;
    int next = choose(me);
    if (next < 0) sim_abort("deadlock", what + ": every thread is blocked");
    switch_to(me, next);
}
void sched_wake_all(const void *key) {
    if (!G.multi) return;
    for (int i = 0; i < S.n; i++) if (S.t[i].state == TS_BLOCKED && S.t[i].blocked_on == key) { S.t[i].state = TS_RUNNABLE; S.t[i].blocked_on = nullptr; }
}

// read-write locks and spin locks: state kept in the caller's object (a static initialiser is all zero); a spin lock is a 4-byte
// object and is used as a writer-only lock: owner + 1 in its single word
struct SimRw { uint32_t magic; int32_t writer; uint64_t readers; };   // readers: bit per simulated thread
#define RW_MAGIC 0x52774c6bu
int sched_rw_init(void *rw, size_t size) {
    memset(rw, 0, size);
    if (size >= sizeof(SimRw)) { SimRw *s = (SimRw *)rw; s->magic = RW_MAGIC; s->writer = -1; s->readers = 0; }
    sim_event("rwlock_init").a = (long)size;
    return 0;
}
static bool rw_thread_alive(int t) { return G.multi && t >= 0 && t < S.n && S.t[t].state != TS_GONE && S.t[t].state != TS_DONE; }
int sched_rw_lock(void *rw, bool write, bool try_only) {
    sim_step();
    if (!try_only) sched_point(SP_LOCK_PRE);
    int me = t_thr;
    SimRw local; SimRw *s;
    int32_t *spin = nullptr;
    // spin locks are told apart by the caller (size 4): encoded by passing the object through sched_rw_init(size 4) -> all zero; we cannot
    // see the size here, so the seam passes spin locks with the low bit of the pointer set
    if ((uintptr_t)rw & 1) { spin = (int32_t *)((uintptr_t)rw & ~(uintptr_t)1); s = &local; s->magic = RW_MAGIC; s->writer = *spin - 1; s->readers = 0; }
    else { s = (SimRw *)rw; if (s->magic != RW_MAGIC) { s->magic = RW_MAGIC; s->writer = -1; s->readers = 0; } }
    const void *key = spin ? (void *)spin : rw;
    for (;;) {
        if (spin) s->writer = *spin - 1;
        bool mine_r = !spin && me < 64 && (s->readers >> me & 1);
        bool free_for_me = write ? (s->writer == -1 && s->readers == 0) : (s->writer == -1);
        if (free_for_me) break;
        if (try_only) return EBUSY;
        if (s->writer == me || (write && mine_r)) sim_abort("deadlock", "thread locks a read-write or spin lock it already holds");
        G.counters["blocked-on-mutex"]++; S.blocked_events++;
        bool someone = false;
        if (s->writer != -1) someone = rw_thread_alive(s->writer);
        for (int t = 0; t < 64 && !someone; t++) if ((s->readers >> t & 1) && rw_thread_alive(t)) someone = true;
        if (!someone) sim_abort("deadlock", "lock is held by a thread that does not exist in this process (fork) or has finished");
        S.t[me].state = TS_BLOCKED; S.t[me].blocked_on = key;
        int next = choose(me);
        if (next < 0) sim_abort("deadlock", "all threads blocked on a read-write or spin lock");
        switch_to(me, next);
    }
    if (spin) *spin = me + 1;
    else if (write) s->writer = me; else if (me < 64) s->readers |= (uint64_t)1 << me;
    // happens-before as for a real read-write lock: a reader synchronises with earlier writers only, a writer with everybody before it
    if (__tsan_acquire) { __tsan_acquire((void *)key); if (write && !spin) __tsan_acquire((char *)key + 1); }
    if (!try_only) sched_point(SP_LOCK_POST);
    return 0;
}
int sched_rw_unlock(void *rw) {
    sim_step();
    int me = t_thr;
    int32_t *spin = ((uintptr_t)rw & 1) ? (int32_t *)((uintptr_t)rw & ~(uintptr_t)1) : nullptr;
    const void *key = spin ? (void *)spin : rw;
    sched_point(SP_UNLOCK_PRE);
    if (spin) { if (*spin != me + 1) { sim_event("unlock_not_owner"); return EPERM; } if (__tsan_release) __tsan_release((void *)key); *spin = 0; }
    else {
        SimRw *s = (SimRw *)rw; if (s->magic != RW_MAGIC) { s->magic = RW_MAGIC; s->writer = -1; s->readers = 0; }
        if (__tsan_release) __tsan_release(s->writer == me ? (void *)key : (void *)((char *)key + 1));
        if (s->writer == me) s->writer = -1;
        else if (me < 64 && (s->readers >> me & 1)) s->readers &= ~((uint64_t)1 << me);
        else { sim_event("unlock_not_owner"); return EPERM; }
    }
    if (G.multi) for (int i = 0; i < S.n; i++) if (S.t[i].state == TS_BLOCKED && S.t[i].blocked_on == key) { S.t[i].state = TS_RUNNABLE; S.t[i].blocked_on = nullptr; }
    sched_point(SP_UNLOCK_POST);
    return 0;
}

struct SimOnce { int32_t state; };   // 0 new, 1 running, 2 done (PTHREAD_ONCE_INIT is 0)
int sched_once(pthread_once_t *o, void (*fn)()) {
    SimOnce *s = (SimOnce *)o;
    sim_step();
    sched_point(SP_ONCE);
    if (s->state == 2) { if (__tsan_acquire) __tsan_acquire(o); return 0; }
    if (s->state == 1) {
        // another thread is inside the initialiser: wait for it (blocked like on a mutex, so that every switch is a recorded choice)
        while (s->state == 1) {
            if (!G.multi) sim_abort("deadlock", "pthread_once initialiser re-entered");
            int me = t_thr;
            S.t[me].state = TS_BLOCKED; S.t[me].blocked_on = o;
            int next = choose(me);
            if (next < 0) sim_abort("deadlock", "waiting for a pthread_once initialiser that cannot finish");
            switch_to(me, next);
        }
        if (__tsan_acquire) __tsan_acquire(o);
        return 0;
    }
    s->state = 1;
    fn();
    if (__tsan_release) __tsan_release(o);
    s->state = 2;
    for (int i = 0; i < S.n; i++) if (S.t[i].state == TS_BLOCKED && S.t[i].blocked_on == o) { S.t[i].state = TS_RUNNABLE; S.t[i].blocked_on = nullptr; }
    return 0;
}

// ------------------------------------------------------------------ Batch
struct ThreadArg { int idx; };
static void finish_thread(int me) {
    SimScope harness_scope;
    S.t[me].state = TS_DONE;
    bool all_done = true;
    for (int i = 0; i < S.n; i++) if (S.t[i].state != TS_DONE && S.t[i].state != TS_GONE && S.t[i].state != TS_UNUSED) all_done = false;
    if (all_done) { fwake(&S.main_futex); return; }
    int next = choose(-1);
    if (next < 0) sim_abort("deadlock", "remaining threads are all blocked");
    fwake(&S.t[next].futex);
}
// A thread of a batch forks: prepare handlers, a real fork() whose child makes one wrapped call and reports, parent handlers.
// Several threads may be doing this at the same time (the handlers are library code with scheduling points in them).
static void child_main(int wfd, const ExecOp &call, bool grandchild, int depth);
static const ExecOp *g_batch_child = nullptr; static std::vector<J> g_batch_children;
static void batch_fork(int me) {
    sim_event("fork");
    for (size_t k = G.atfork.size(); k-- > 0;) if (G.atfork[k].prepare) { t_in_sut = 1; G.atfork[k].prepare(); t_in_sut = 0; }
    // a finished thread may still be in its (sanitizer) teardown holding allocator locks the child would inherit: then the fork is
    // only acted out in the parent (handlers), without a child
    sched_point(SP_IO);   // fork() is a system call like any other: the other threads go on while this one is in it
    bool can = g_batch_child != nullptr; for (int i = 0; i < S.n; i++) if (i != me && S.t[i].state == TS_DONE) can = false;
    int pfd[2] = {-1, -1}; pid_t p = -1;
    if (can) {
        if (pipe(pfd) != 0) { dprintf(2, "harness problem: pipe failed\n"); _exit(2); }
        p = fork();
        if (p < 0) { dprintf(2, "harness problem: fork failed\n"); _exit(2); }
        if (p == 0) { close(pfd[0]); child_main(pfd[1], *g_batch_child, false, 0); }
        close(pfd[1]);
    }
    sched_point(SP_IO);
    for (auto &h : G.atfork) if (h.parent) { t_in_sut = 1; h.parent(); t_in_sut = 0; }
    if (can) {
        std::string s; char b[4096]; ssize_t n;
        while ((n = read(pfd[0], b, sizeof b)) > 0) s.append(b, (size_t)n);
        close(pfd[0]);
        int st = 0; waitpid(p, &st, 0);
        J c; if (!J::parse(s, c)) { c = J::obj(); c.set("completed", false); c.set("abort_class", "child-died"); c.set("abort_detail", "status " + std::to_string(st) + " output " + s); }
        c.set("forker", me);
        g_batch_children.push_back(c);
        G.counters["batch-fork-with-child"]++;
    } else G.counters["batch-fork-parent-side-only"]++;
}
static void *thread_body(void *p) {
    int me = ((ThreadArg *)p)->idx;
    t_thr = me; t_in_sut = 0; t_in_sim = 0;
    // every thread of the caller has its own signal mask (per-thread state that a wrapped call has to leave as it found it)
    { sigset_t m; sigemptyset(&m); if (me & 1) sigaddset(&m, SIGUSR1); if (me & 2) sigaddset(&m, SIGUSR2); if (me % 3 == 0) sigaddset(&m, SIGWINCH); sigaddset(&m, SIGRTMIN + 3 + me % 8); pthread_sigmask(SIG_BLOCK, &m, nullptr); }
    __atomic_add_fetch(&S.started, 1, __ATOMIC_ACQ_REL);
    fwait(&S.t[me].futex);
    const std::vector<ExecOp> &calls = *S.t[me].calls;
    for (size_t k = 0; k < calls.size(); k++) {
        for (int f = 0; f < calls[k].forks_before; f++) batch_fork(me);
        exec_call(calls[k], S.t[me].first_opi + (int)k, (*S.t[me].obs)[(size_t)S.t[me].first_opi + k]);
    }
    finish_thread(me);
    return nullptr;
}

extern char **environ;
// A thread of the calling program that is not inside the library: it opens descriptors of its own (lowest free number, like everybody's),
// keeps each for a while and checks that it is still the one it opened - the library must never close or replace a descriptor it does not own.
static int g_app_opens = 0; static std::string g_app_damage;
static void *app_body(void *p) {
    int me = ((ThreadArg *)p)->idx;
    t_thr = me; t_in_sut = 0; t_in_sim = 0;
    __atomic_add_fetch(&S.started, 1, __ATOMIC_ACQ_REL);
    fwait(&S.t[me].futex);
    for (int k = 0; k < g_app_opens; k++) {
        int fd, id;
        { SimScope s; sched_point(SP_IO); fd = k_open("/dev/null", O_RDONLY, 0); id = fd >= 0 && G.fds.count(fd) ? G.fds[fd].id : -1; }
        { SimScope s; sched_point(SP_IO); }
        {
            SimScope s;
            auto it = G.fds.find(fd);
            if (fd >= 0 && (it == G.fds.end() || it->second.id != id) && g_app_damage.empty())
                g_app_damage = "descriptor " + std::to_string(fd) + " that another thread of the caller had opened was " + (it == G.fds.end() ? "closed" : "closed and replaced") + " behind its back";
            if (fd >= 0 && it != G.fds.end() && it->second.id == id) k_close(fd);
        }
    }
    finish_thread(me);
    return nullptr;
}

void run_batch(const Plan &plan, int opi, const Op &op, RunResult &r) {
    (void)plan;
    int n = (int)op.threads.size();
    if (n < 1 || n > 64) return;
    S = Sched();
    g_app_opens = op.app_opens; g_app_damage.clear();
    g_batch_child = op.child_ex.path.empty() ? nullptr : &op.child_ex; g_batch_children.clear();
    S.n = n + (op.app_opens > 0 ? 1 : 0); S.policy = op.policy; S.rng.reseed(op.sched_seed ^ 0x5ced);
    S.have_replay = op.have_schedule; S.replay = op.schedule;
    size_t base = r.obs.size(); int total = 0;
    for (auto &t : op.threads) total += (int)t.size();
    // obs vector was reserved by sim_run; index by absolute opi
    while (r.obs.size() < (size_t)(opi + total)) r.obs.emplace_back();
    (void)base;
    long est = 80L * total;
    if (S.policy == 1) {
        std::vector<int> pr; for (int i = 0; i < n; i++) pr.push_back(i + 1);
        for (int i = n - 1; i > 0; i--) { int j = (int)S.rng.below((uint64_t)i + 1); std::swap(pr[i], pr[j]); }
        for (int i = 0; i < n; i++) S.t[i].prio = pr[i] * 1000;
        for (int k = 0; k < op.pct_d - 1; k++) S.change_points.push_back(1 + (long)S.rng.below((uint64_t)est));
    } else if (S.policy == 2) {
        S.park_thr = (int)S.rng.below((uint64_t)n);
        S.park_point = 1 + (int)S.rng.below(90);
    } else if (S.policy == 3) {     // enumerated by the seed: thread = seed mod n, point = (seed div n) mod 120 + 1
        S.park_thr = (int)(op.sched_seed % (uint64_t)n);
        S.park_point = 1 + (int)((op.sched_seed / (uint64_t)n) % 120);
    }
    if (op.app_opens > 0) S.t[n].prio = (int)S.rng.below((uint64_t)n + 1) * 1000 + 500;
    // process environment for the whole batch
    std::vector<char *> store; char **saved = environ;
    std::vector<char *> vec;
    if (!G.w.environ_null) { for (auto &s : G.w.env) vec.push_back(strdup(s.c_str())); vec.push_back(nullptr); environ = vec.data(); } else environ = nullptr;
    sim_tzset_canonical();
    ThreadArg args[MAXT];
    int o = opi;
    G.multi = true;
    for (int i = 0; i < n; i++) {
        S.t[i].state = TS_RUNNABLE; S.t[i].calls = &op.threads[(size_t)i]; S.t[i].first_opi = o; S.t[i].obs = &r.obs; o += (int)op.threads[(size_t)i].size();
        args[i].idx = i;
        pthread_attr_t at; pthread_attr_init(&at); pthread_attr_setstacksize(&at, 1 << 20);
        if (pthread_create(&S.t[i].th, &at, thread_body, &args[i]) != 0) { dprintf(2, "harness problem: pthread_create failed\n"); _exit(2); }
        pthread_attr_destroy(&at);
    }
    static std::vector<ExecOp> no_calls;
    if (op.app_opens > 0) {
        S.app_idx = n;
        S.t[n].state = TS_RUNNABLE; S.t[n].calls = &no_calls; S.t[n].first_opi = o; S.t[n].obs = &r.obs; args[n].idx = n;
        pthread_attr_t at; pthread_attr_init(&at); pthread_attr_setstacksize(&at, 1 << 20);
        if (pthread_create(&S.t[n].th, &at, app_body, &args[n]) != 0) { dprintf(2, "harness problem: pthread_create failed\n"); _exit(2); }
        pthread_attr_destroy(&at);
    }
    while (__atomic_load_n(&S.started, __ATOMIC_ACQUIRE) < S.n) sched_yield();
    int first = choose(-1);
    fwake(&S.t[first].futex);
    fwait(&S.main_futex);
    if (!g_app_damage.empty()) { G.counters["app-descriptor-damaged"]++; if (r.abort_class.empty() && G.abort_class.empty()) { r.app_damage = g_app_damage; } }
    r.schedule = S.trace; r.sched_points = (int)S.total_points; r.max_overlap = S.max_overlap; r.blocked_on_mutex = S.blocked_events;
    if (!g_batch_children.empty()) { J a = J::arr(); for (auto &c : g_batch_children) a.push(c); r.child = a; }
    if (!S.aborting) {
        for (int i = 0; i < S.n; i++) pthread_join(S.t[i].th, nullptr);
        G.multi = false;
        environ = saved;
        for (char *c : vec) free(c);
    } else {
        // threads are parked for ever; the worker process will exit after reporting
        G.multi = false;
    }
}

// ------------------------------------------------------------------ fork

static std::string g_child_report;

int sim_fork() {
    // what fork() does with handlers registered through pthread_atfork: prepare in reverse order,
    // then parent/child in registration order; the handlers are library code
    sim_event("fork");
    for (size_t k = G.atfork.size(); k-- > 0;) if (G.atfork[k].prepare) { int was = t_in_sut; t_in_sim = 0; t_in_sut = 1; G.atfork[k].prepare(); t_in_sut = was; }
    return 0;
}

struct ForkCtx { const Op *op; RunResult *r; int opi; };
static ForkCtx g_fc;

static J obs_brief(const ExecObs &o) {
    J j = J::obj();
    j.set("real_calls", o.real_calls); j.set("returned", o.returned); j.set("ret", o.ret); j.set("errno", o.err);
    j.set("args_equal", o.args_equal); j.set("steps", o.steps);
    return j;
}

// runs in the forked child: only the forking thread exists here
static void child_main(int wfd, const ExecOp &call, bool grandchild, int depth) {
    G.multi = false; S.fork_mode = false;
    // Only the forking thread exists here, and it is a NEW kernel thread: glibc records the owner of a recursive mutex by
    // kernel tid, so a mutex the forking thread locked before fork() (prepare handler) is owned by a tid that no longer
    // exists - unlocking it fails with EPERM and locking it blocks; it has to be re-initialised.
    for (int i = 0; i < S.n; i++) S.t[i].state = TS_GONE;
    if (S.n < MAXT - 1) { t_thr = S.n; S.t[S.n].state = TS_RUNNABLE; S.n++; }
    // in the child, blocking can only be detected, never resolved
    G.run_jmp_armed = true;
    J rep = J::obj();
    rep.set("depth", depth);
    static ExecObs ob;
    ob = ExecObs();
    size_t h0 = G.hist.size();
    if (setjmp(G.run_jmp) == 0) {
        // G.multi must stay true for the mutex code to consult thread states: emulate by keeping S, but single-threaded
        for (auto &h : G.atfork) if (h.child) { t_in_sut = 1; h.child(); t_in_sut = 0; }
        exec_call(call, 1000 + depth, ob);
        rep.set("completed", true);
        rep.set("obs", obs_brief(ob));
        J dl = J::arr();
        RunResult tmp; tmp.hist.assign(G.hist.begin() + (long)h0, G.hist.end()); tmp.obs.push_back(ob);
        for (auto &d : deliveries(tmp, 1000 + depth)) { J o = J::obj(); o.set("sink", d.sink); o.set("bytes", d.bytes); o.set("writes", d.writes); dl.push(o); }
        rep.set("deliveries", dl);
        if (grandchild && depth == 0) {
            int pfd[2]; if (pipe(pfd) == 0) {
                for (size_t k = G.atfork.size(); k-- > 0;) if (G.atfork[k].prepare) { t_in_sut = 1; G.atfork[k].prepare(); t_in_sut = 0; }
                pid_t p = fork();
                if (p == 0) { close(pfd[0]); child_main(pfd[1], call, false, 1); }
                close(pfd[1]);
                for (auto &h : G.atfork) if (h.parent) { t_in_sut = 1; h.parent(); t_in_sut = 0; }
                std::string s; char b[4096]; ssize_t n;
                while ((n = read(pfd[0], b, sizeof b)) > 0) s.append(b, (size_t)n);
                close(pfd[0]); int stt; waitpid(p, &stt, 0);
                J g; if (J::parse(s, g)) rep.set("grandchild", g); else rep.set("grandchild_raw", s);
            }
        }
    } else {
        rep.set("completed", false);
        rep.set("abort_class", G.abort_class); rep.set("abort_detail", G.abort_detail);
    }
    std::string out = rep.dump();
    size_t off = 0;
    while (off < out.size()) { ssize_t n = write(wfd, out.data() + off, out.size() - off); if (n <= 0) break; off += (size_t)n; }
    close(wfd);
    _exit(0);
}

// thread 0 of a ForkExec operation: the forking thread ("A"), outside the library until it forks
static void *forker_body(void *) {
    t_thr = 0; t_in_sut = 0; t_in_sim = 0;
    __atomic_add_fetch(&S.started, 1, __ATOMIC_ACQ_REL);
    fwait(&S.t[0].futex);
    const Op &op = *g_fc.op;
    // prepare handlers (library code; may take the registry mutex and have to wait for B)
    sim_event("fork");
    G.counters["fork-owner-" + std::to_string(-1)];
    S.fork_window = op.fork_window; S.in_prepare = true;
    for (size_t k = G.atfork.size(); k-- > 0;) if (G.atfork[k].prepare) { t_in_sut = 1; G.atfork[k].prepare(); t_in_sut = 0; }
    S.in_prepare = false;
    // a thread that has finished may still be running its (sanitizer) teardown, holding allocator locks the child
    // would inherit: wait until it is really gone before forking
    if (S.t[1].state == TS_DONE) { pthread_join(S.t[1].th, nullptr); S.t[1].state = TS_GONE; }
    int pfd[2];
    if (pipe(pfd) != 0) { dprintf(2, "harness problem: pipe failed\n"); _exit(2); }
    pid_t p = fork();
    if (p < 0) { dprintf(2, "harness problem: fork failed\n"); _exit(2); }
    if (p == 0) { close(pfd[0]); child_main(pfd[1], op.child_ex, op.grandchild, 0); }
    close(pfd[1]);
    for (auto &h : G.atfork) if (h.parent) { t_in_sut = 1; h.parent(); t_in_sut = 0; }
    std::string s; char b[4096]; ssize_t n;
    while ((n = read(pfd[0], b, sizeof b)) > 0) s.append(b, (size_t)n);
    close(pfd[0]);
    int st = 0; waitpid(p, &st, 0);
    J c; if (!J::parse(s, c)) { c = J::obj(); c.set("completed", false); c.set("abort_class", "child-died"); c.set("abort_detail", "status " + std::to_string(st) + " output " + s); }
    g_fc.r->child = c;
    finish_thread(0);
    return nullptr;
}
static void *b_body(void *) {
    t_thr = 1; t_in_sut = 0; t_in_sim = 0;
    __atomic_add_fetch(&S.started, 1, __ATOMIC_ACQ_REL);
    fwait(&S.t[1].futex);
    exec_call(g_fc.op->ex, g_fc.opi, (*g_fc.r).obs[(size_t)g_fc.opi]);
    if (S.phase == 0) S.phase = 1;     // B finished before its fork point: fork afterwards
    finish_thread(1);
    return nullptr;
}

static ExecObs g_extra_obs[MAXT];
static void *extra_body(void *p) {
    int me = (int)(intptr_t)p;
    t_thr = me; t_in_sut = 0; t_in_sim = 0;
    __atomic_add_fetch(&S.started, 1, __ATOMIC_ACQ_REL);
    fwait(&S.t[me].futex);
    g_extra_obs[me] = ExecObs();
    exec_call(g_fc.op->extra_calls[(size_t)me - 2], 2000 + me, g_extra_obs[me]);
    finish_thread(me);
    return nullptr;
}

void run_forkexec(const Plan &plan, int opi, const Op &op, RunResult &r) {
    (void)plan;
    S = Sched();
    int nextra = (int)op.extra_calls.size(); if (nextra > 6) nextra = 6;
    S.n = 2 + nextra; S.fork_mode = true; S.fork_point = op.fork_point; S.phase = op.fork_point <= 0 ? 1 : 0;
    for (int i = 0; i < nextra; i++) S.extra_point[2 + i] = op.extra_points[(size_t)i];
    while (r.obs.size() < (size_t)(opi + 1)) r.obs.emplace_back();
    g_fc.op = &op; g_fc.r = &r; g_fc.opi = opi;
    std::vector<char *> vec; char **saved = environ;
    if (!G.w.environ_null) { for (auto &s : G.w.env) vec.push_back(strdup(s.c_str())); vec.push_back(nullptr); environ = vec.data(); } else environ = nullptr;
    sim_tzset_canonical();
    G.multi = true;
    S.t[0].state = TS_RUNNABLE; S.t[1].state = TS_RUNNABLE;
    pthread_create(&S.t[0].th, nullptr, forker_body, nullptr);
    pthread_create(&S.t[1].th, nullptr, b_body, nullptr);
    for (int i = 0; i < nextra; i++) { S.t[2 + i].state = TS_RUNNABLE; pthread_create(&S.t[2 + i].th, nullptr, extra_body, (void *)(intptr_t)(2 + i)); }
    while (__atomic_load_n(&S.started, __ATOMIC_ACQUIRE) < S.n) sched_yield();
    int first = choose(-1);
    fwake(&S.t[first].futex);
    fwait(&S.main_futex);
    r.schedule = S.trace; r.sched_points = S.t[1].points; r.max_overlap = S.max_overlap; r.blocked_on_mutex = S.blocked_events;
    if (!S.aborting) {
        pthread_join(S.t[0].th, nullptr); if (S.t[1].state != TS_GONE) pthread_join(S.t[1].th, nullptr);
        for (int i = 0; i < nextra; i++) pthread_join(S.t[2 + i].th, nullptr);
        for (int i = 0; i < nextra; i++) if (g_extra_obs[2 + i].real_calls != 1 && G.abort_class.empty()) { G.abort_class = "parent-thread-disturbed"; G.abort_detail = "a further parent thread reached the real exec " + std::to_string(g_extra_obs[2 + i].real_calls) + " times"; }
        environ = saved; for (char *c : vec) free(c);
    }
    G.multi = false;
}
