// JSON (de)serialisation of world and plan; /proc rendering.
#include "sim.hpp"

static J ids_to_json(const std::vector<IdName> &v) {
    J a = J::arr();
    for (auto &e : v) { J o = J::obj(); o.set("id", e.id); o.set("name", e.name); if (e.entry_bytes) o.set("entry_bytes", e.entry_bytes); a.push(o); }
    return a;
}
static void ids_from_json(const J &a, std::vector<IdName> &v) {
    v.clear();
    for (auto &e : a.a) v.push_back({(uint32_t)e.geti("id"), e.gets("name"), (uint32_t)e.geti("entry_bytes", 0)});
}

J World::to_json() const {
    J j = J::obj();
    j.set("uid", uid); j.set("euid", euid); j.set("gid", gid); j.set("egid", egid);
    j.set("pid", pid); j.set("ppid", ppid); j.set("sid", sid); j.set("tid_kernel", tid_kernel);
    j.set("passwd", ids_to_json(passwd)); j.set("group", ids_to_json(group));
    J ps = J::arr();
    for (auto &p : procs) {
        J o = J::obj();
        o.set("pid", p.pid); o.set("ppid", p.ppid); o.set("comm", p.comm); o.set("cgroup", jstrs(p.cgroup));
        if (p.stat_errno) o.set("stat_errno", p.stat_errno);
        if (p.status_errno) o.set("status_errno", p.status_errno);
        ps.push(o);
    }
    j.set("procs", ps);
    j.set("tty_state", tty_state); j.set("tty_path", tty_path); j.set("tty_uid", tty_uid); j.set("tty_stat_errno", tty_stat_errno);
    J ut = J::arr();
    for (auto &u : utmp) {
        J o = J::obj(); o.set("line", u.line); o.set("user", u.user);
        J ad = J::arr(); for (int k = 0; k < 4; k++) ad.push(J(u.addr[k])); o.set("addr", ad);
        ut.push(o);
    }
    j.set("utmp", ut);
    j.set("login_errno", login_errno); j.set("login_name", login_name);
    j.set("env", jstrs(env)); j.set("environ_null", environ_null); if (at_secure) j.set("at_secure", true); if (ctype_tr) j.set("ctype_tr", true);
    j.set("cwd", cwd); j.set("cwd_errno", cwd_errno); j.set("hostname", hostname);
    j.set("clock_us", (long long)clock_us); j.set("clock_step_us", (long long)clock_step_us);
    J fs = J::obj();
    for (auto &f : files) {
        if (f.first.compare(0, 6, "/proc/") == 0) continue; // rendered from procs
        J o = J::obj(); o.set("kind", f.second.kind);
        if (!f.second.content.empty()) o.set("content", f.second.content);
        if (f.second.open_errno) o.set("open_errno", f.second.open_errno);
        if (f.second.uid) o.set("uid", f.second.uid);
        if (f.second.kind == 4) o.set("fifo_free", (long long)f.second.fifo_free);
        if (f.second.mode != 0644) o.set("perm", f.second.mode);
        if (f.second.locked_by_other) o.set("locked_by_other", true);
        fs.set(f.first, o);
    }
    j.set("files", fs);
    J ss = J::obj();
    for (auto &s : socks) {
        J o = J::obj(); o.set("state", s.second.state); o.set("capacity", s.second.capacity); o.set("queued", s.second.queued);
        ss.set(s.first, o);
    }
    j.set("socks", ss);
    j.set("stdout_kind", stdout_kind); j.set("has_ctty", has_ctty); j.set("disk_free", (long long)disk_free); if (fsize_limit >= 0) j.set("fsize_limit", fsize_limit);
    return j;
}

void World::from_json(const J &j) {
    World d;
    uid = (uint32_t)j.geti("uid", d.uid); euid = (uint32_t)j.geti("euid", d.euid);
    gid = (uint32_t)j.geti("gid", d.gid); egid = (uint32_t)j.geti("egid", d.egid);
    pid = (int)j.geti("pid", d.pid); ppid = (int)j.geti("ppid", d.ppid); sid = (int)j.geti("sid", d.sid);
    tid_kernel = (int)j.geti("tid_kernel", d.tid_kernel);
    if (j.has("passwd")) ids_from_json(j.at("passwd"), passwd);
    if (j.has("group")) ids_from_json(j.at("group"), group);
    if (j.has("procs")) {
        procs.clear();
        for (auto &e : j.at("procs").a) {
            Proc p; p.pid = (int)e.geti("pid"); p.ppid = (int)e.geti("ppid"); p.comm = e.gets("comm");
            p.cgroup = jstrs(e.at("cgroup")); p.stat_errno = (int)e.geti("stat_errno"); p.status_errno = (int)e.geti("status_errno");
            procs.push_back(p);
        }
    }
    tty_state = (int)j.geti("tty_state", d.tty_state); tty_path = j.gets("tty_path", d.tty_path);
    tty_uid = (uint32_t)j.geti("tty_uid", d.tty_uid); tty_stat_errno = (int)j.geti("tty_stat_errno", 0);
    if (j.has("utmp")) {
        utmp.clear();
        for (auto &e : j.at("utmp").a) {
            UtmpEnt u; u.line = e.gets("line"); u.user = e.gets("user");
            const J &ad = e.at("addr"); for (size_t k = 0; k < 4 && k < ad.a.size(); k++) u.addr[k] = (uint32_t)ad.a[k].i;
            utmp.push_back(u);
        }
    }
    login_errno = (int)j.geti("login_errno", d.login_errno); login_name = j.gets("login_name", d.login_name);
    if (j.has("env")) env = jstrs(j.at("env"));
    environ_null = j.getb("environ_null", false); at_secure = j.getb("at_secure", false); ctype_tr = j.getb("ctype_tr", false);
    cwd = j.gets("cwd", d.cwd); cwd_errno = (int)j.geti("cwd_errno", 0); hostname = j.gets("hostname", d.hostname);
    clock_us = j.geti("clock_us", d.clock_us); clock_step_us = j.geti("clock_step_us", d.clock_step_us);
    if (j.has("files")) {
        // replace the non-/proc part
        for (auto it = files.begin(); it != files.end();) { if (it->first.compare(0, 6, "/proc/") != 0) it = files.erase(it); else ++it; }
        for (auto &p : j.at("files").o) {
            FileNode f; f.kind = (int)p.second.geti("kind"); f.content = p.second.gets("content");
            f.open_errno = (int)p.second.geti("open_errno"); f.uid = (uint32_t)p.second.geti("uid"); f.fifo_free = (long)p.second.geti("fifo_free", -1); f.mode = (int)p.second.geti("perm", 0644); f.locked_by_other = p.second.getb("locked_by_other");
            files[p.first] = f;
        }
    }
    if (j.has("socks")) {
        socks.clear();
        for (auto &p : j.at("socks").o) {
            SockNode s; s.state = (int)p.second.geti("state"); s.capacity = (int)p.second.geti("capacity", 10); s.queued = (int)p.second.geti("queued");
            socks[p.first] = s;
        }
    }
    stdout_kind = (int)j.geti("stdout_kind", d.stdout_kind); has_ctty = j.getb("has_ctty", true); disk_free = j.geti("disk_free", -1); fsize_limit = j.geti("fsize_limit", -1);
    render_proc();
}

void World::render_proc() {
    for (auto it = files.begin(); it != files.end();) { if (it->first.compare(0, 6, "/proc/") == 0) it = files.erase(it); else ++it; }
    FileNode d; d.kind = 1; files["/proc"] = d;
    for (auto &p : procs) {
        std::string base = "/proc/" + std::to_string(p.pid);
        files[base] = d;
        FileNode st; st.open_errno = p.stat_errno > 0 ? p.stat_errno : 0;
        // pid (comm) state ppid pgrp session tty_nr tpgid flags minflt cminflt majflt cmajflt utime stime ...
        st.content = std::to_string(p.pid) + " (" + p.comm + ") S " + std::to_string(p.ppid) + " " + std::to_string(p.pid) + " " + std::to_string(sid) +
                     " 34816 " + std::to_string(p.pid) + " 4194304 1234 0 0 0 3 1 0 0 20 0 1 0 8311 10000000 900 18446744073709551615 1 1 0 0 0 0 0 0 0 0 0 0 17 3 0 0 0 0 0\n";
        if (p.stat_errno == -1) st.content = "";            // opens, but reads as empty: the process exited in between
        else if (p.stat_errno == -2) st.content = st.content.substr(0, 5);
        files[base + "/stat"] = st;
        FileNode ss; ss.open_errno = p.status_errno;
        ss.content = "Name:\t" + p.comm + "\nUmask:\t0022\nState:\tS (sleeping)\nTgid:\t" + std::to_string(p.pid) + "\nNgid:\t0\nPid:\t" + std::to_string(p.pid) +
                     "\nPPid:\t" + std::to_string(p.ppid) + "\nTracerPid:\t0\nUid:\t" + std::to_string(uid) + "\t" + std::to_string(euid) + "\t" + std::to_string(euid) + "\t" + std::to_string(euid) +
                     "\nGid:\t" + std::to_string(gid) + "\t" + std::to_string(egid) + "\t" + std::to_string(egid) + "\t" + std::to_string(egid) +
                     "\nFDSize:\t64\nGroups:\t \nVmPeak:\t    4000 kB\nThreads:\t1\n";
        files[base + "/status"] = ss;
        FileNode cg;
        for (auto &l : p.cgroup) cg.content += l + "\n";
        files[base + "/cgroup"] = cg;
    }
}

// ------------------------------------------------------------------ plan
J ExecOp::to_json() const {
    J j = J::obj();
    j.set("api", api == 0 ? "execv" : "execve"); j.set("path", path);
    if (argv_null) j.set("argv", J()); else j.set("argv", jstrs(argv));
    if (envp_null) j.set("envp", J()); else j.set("envp", jstrs(envp));
    if (argv0_null_hidden) j.set("argv0_null_hidden", true);
    if (entry_errno) j.set("entry_errno", entry_errno);
    if (forks_before) j.set("forks_before", forks_before);
    J o = J::obj();
    if (success) o.set("success", true); else { o.set("ret", ret); o.set("errno", err); }
    j.set("outcome", o);
    J fa = J::arr(); for (auto &f : faults) fa.push(f.to_json());
    j.set("faults", fa);
    return j;
}
ExecOp ExecOp::from_json(const J &j) {
    ExecOp e;
    e.api = j.gets("api", "execve") == "execv" ? 0 : 1; e.path = j.gets("path");
    const J *a = j.find("argv"); if (!a || a->is_null()) e.argv_null = true; else e.argv = jstrs(*a);
    const J *v = j.find("envp"); if (!v || v->is_null()) e.envp_null = true; else e.envp = jstrs(*v);
    e.argv0_null_hidden = j.getb("argv0_null_hidden"); e.entry_errno = (int)j.geti("entry_errno", 0); e.forks_before = (int)j.geti("forks_before", 0);
    const J &o = j.at("outcome");
    e.success = o.getb("success"); e.ret = (int)o.geti("ret", -1); e.err = (int)o.geti("errno", 2);
    for (auto &f : j.at("faults").a) e.faults.push_back(Fault::from_json(f));
    return e;
}

J Op::to_json() const {
    J j = J::obj(); j.set("op", op);
    if (op == "SetConfig") { j.set("mode", cfg_mode); if (cfg_mode == 0) j.set("bytes", cfg); if (cfg_mode == 2) j.set("errno", cfg_errno); if (cfg_file_mode) j.set("file_mode", cfg_file_mode); }
    else if (op == "Exec" || op == "CliConf") { j.set("call", ex.to_json()); if (roundtrip) j.set("roundtrip", true); }
    else if (op == "Batch") {
        J ts = J::arr();
        for (auto &t : threads) { J c = J::arr(); for (auto &e : t) c.push(e.to_json()); ts.push(c); }
        j.set("threads", ts); j.set("policy", policy); j.set("pct_d", pct_d); j.set("sched_seed", (unsigned long long)sched_seed);
        if (have_schedule) { J s = J::arr(); for (int c : schedule) s.push(J(c)); j.set("schedule", s); }
        if (app_opens) j.set("app_opens", app_opens);
        if (!child_ex.path.empty()) j.set("child", child_ex.to_json());
    } else if (op == "ForkExec") {
        j.set("call", ex.to_json()); j.set("fork_point", fork_point); j.set("child", child_ex.to_json()); j.set("grandchild", grandchild); if (fork_window) j.set("fork_window", true);
        if (!extra_calls.empty()) { J xs = J::arr(); for (size_t i = 0; i < extra_calls.size(); i++) { J x = J::obj(); x.set("call", extra_calls[i].to_json()); x.set("point", extra_points[i]); xs.push(x); } j.set("others", xs); }
    } else if (op == "Mutate") { j.set("patch", patch); }
    return j;
}
Op Op::from_json(const J &j) {
    Op o; o.op = j.gets("op");
    if (o.op == "SetConfig") { o.cfg_mode = (int)j.geti("mode"); o.cfg = j.gets("bytes"); o.cfg_errno = (int)j.geti("errno", 13); o.cfg_file_mode = (int)j.geti("file_mode", 0); }
    else if (o.op == "Exec" || o.op == "CliConf") { o.ex = ExecOp::from_json(j.at("call")); o.roundtrip = j.getb("roundtrip"); }
    else if (o.op == "Batch") {
        for (auto &t : j.at("threads").a) { std::vector<ExecOp> c; for (auto &e : t.a) c.push_back(ExecOp::from_json(e)); o.threads.push_back(c); }
        o.policy = (int)j.geti("policy"); o.pct_d = (int)j.geti("pct_d", 1); o.sched_seed = (uint64_t)j.geti("sched_seed");
        if (j.has("schedule")) { o.have_schedule = true; for (auto &c : j.at("schedule").a) o.schedule.push_back((int)c.i); }
        o.app_opens = (int)j.geti("app_opens", 0);
        if (j.has("child")) o.child_ex = ExecOp::from_json(j.at("child"));
    } else if (o.op == "ForkExec") {
        o.ex = ExecOp::from_json(j.at("call")); o.fork_point = (int)j.geti("fork_point"); o.child_ex = ExecOp::from_json(j.at("child")); o.grandchild = j.getb("grandchild"); o.fork_window = j.getb("fork_window");
        if (j.has("others")) for (auto &x : j.at("others").a) { o.extra_calls.push_back(ExecOp::from_json(x.at("call"))); o.extra_points.push_back((int)x.geti("point")); }
    } else if (o.op == "Mutate") { o.patch = j.at("patch"); }
    return o;
}

J Plan::to_json() const {
    J j = J::obj();
    j.set("property", property); j.set("seed", (unsigned long long)seed);
    j.set("world", world.to_json());
    J os = J::arr(); for (auto &o : ops) os.push(o.to_json());
    j.set("plan", os); j.set("extra", extra);
    return j;
}
void Plan::from_json(const J &j) {
    property = j.gets("property"); seed = (uint64_t)j.geti("seed");
    world = World(); world.from_json(j.at("world"));
    ops.clear(); for (auto &o : j.at("plan").a) ops.push_back(Op::from_json(o));
    extra = j.has("extra") ? j.at("extra") : J::obj();
}

uint64_t fnv(const std::string &s, uint64_t h) {
    for (unsigned char c : s) { h ^= c; h *= 1099511628211ULL; }
    return h;
}
