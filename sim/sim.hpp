// Deterministic simulator hosting the production libsnoopy.so — shared declarations.
#pragma once
#include "json.hpp"
#include <csetjmp>
#include <cstdint>
#include <map>
#include <set>
#include <string>
#include <vector>

// --------------------------------------------------------------------- PRNG
struct Rng {
    uint64_t s[4];
    static uint64_t splitmix(uint64_t &x) {
        uint64_t z = (x += 0x9E3779B97F4A7C15ULL);
        z = (z ^ (z >> 30)) * 0xBF58476D1CE4E5B9ULL;
        z = (z ^ (z >> 27)) * 0x94D049BB133111EBULL;
        return z ^ (z >> 31);
    }
    explicit Rng(uint64_t seed = 1) { reseed(seed); }
    void reseed(uint64_t seed) { uint64_t x = seed; for (auto &v : s) v = splitmix(x); }
    static uint64_t rotl(uint64_t x, int k) { return (x << k) | (x >> (64 - k)); }
    uint64_t next() {
        uint64_t r = rotl(s[1] * 5, 7) * 9, t = s[1] << 17;
        s[2] ^= s[0]; s[3] ^= s[1]; s[1] ^= s[2]; s[0] ^= s[3]; s[2] ^= t; s[3] = rotl(s[3], 45);
        return r;
    }
    uint64_t below(uint64_t n) { return n ? next() % n : 0; }
    int64_t range(int64_t lo, int64_t hi) { return lo + (int64_t)below((uint64_t)(hi - lo + 1)); }
    bool chance(unsigned num, unsigned den) { return below(den) < num; }
    template <class T> const T &pick(const std::vector<T> &v) { return v[below(v.size())]; }
    Rng fork(uint64_t salt) { return Rng(next() ^ (salt * 0x9E3779B97F4A7C15ULL)); }
};

// --------------------------------------------------------------------- world
struct IdName { uint32_t id; std::string name; uint32_t entry_bytes = 0; };   // entry_bytes: what the rest of the entry (member list; gecos, home, shell) needs in the buffer of a getXXid_r caller
struct Proc {
    int pid = 0, ppid = 0;
    std::string comm;                       // kernel process name (<= 15 bytes)
    std::vector<std::string> cgroup;        // lines of /proc/<pid>/cgroup
    int stat_errno = 0;                     // open error for /proc/<pid>/stat (0 = readable; -1 reads as empty, -2 cut after 5 bytes)
    int status_errno = 0;                   // same for /proc/<pid>/status
};
struct FileNode {
    int kind = 0;                           // 0 regular, 1 directory, 2 /dev/null, 3 /dev/tty, 4 FIFO with a (slow) reader
    long fifo_free = -1;                    // FIFO: bytes of room in the pipe right now (-1 plenty)
    std::string content;
    int open_errno = 0;                     // every open of this path fails with it
    uint32_t uid = 0;
    int mode = 0644;
    bool locked_by_other = false;           // another process holds an advisory record lock (fcntl/lockf) on the file right now
};
struct SockNode {
    int state = 0;                          // 0 bound datagram socket, 1 nobody bound (ECONNREFUSED), 2 EACCES, 3 bound stream socket (EPROTOTYPE)
    int capacity = 10;                      // receive queue length (max_dgram_qlen)
    int queued = 0;                         // datagrams already sitting unread in the queue
    std::vector<std::string> received;      // what arrived during the run
};
struct UtmpEnt { std::string line, user; uint32_t addr[4] = {0, 0, 0, 0}; };

struct World {
    uint32_t uid = 0, euid = 0, gid = 0, egid = 0;
    int pid = 4242, ppid = 4000, sid = 3000, tid_kernel = 4242;
    std::vector<IdName> passwd, group;
    std::vector<Proc> procs;
    int tty_state = 0;                      // 0 no terminal (ENOTTY), 1 stdin closed (EBADF), 2 terminal
    std::string tty_path = "/dev/pts/3";
    uint32_t tty_uid = 0;
    int tty_stat_errno = 0;
    std::vector<UtmpEnt> utmp;
    int login_errno = 0;                    // getlogin_r result (0 = login_name)
    std::string login_name = "root";
    std::vector<std::string> env;
    bool environ_null = false;
    bool ctype_tr = false;                  // the calling process runs under an LC_CTYPE in which 'i'/'I' are not each other's case (tr_TR, az_AZ): toupper('i') == 'i'
    bool at_secure = false;                 // the process image was started in secure-execution mode (set-uid/set-gid exec): secure_getenv() sees nothing
    std::string cwd = "/";
    int cwd_errno = 0;
    std::string hostname = "simhost";
    int64_t clock_us = 1700000000LL * 1000000;
    int64_t clock_step_us = 137;
    std::map<std::string, FileNode> files;  // includes directories
    std::map<std::string, SockNode> socks;
    long long fsize_limit = -1;             // RLIMIT_FSIZE of the process in bytes (-1 unlimited): a write beyond it is cut there, one starting at it raises SIGXFSZ and fails with EFBIG
    int stdout_kind = 0;                    // 0 tty (line buffered), 1 pipe, 2 file (fully buffered), 3 descriptors 1 and 2 are closed (daemon)
    bool has_ctty = true;                   // /dev/tty can be opened
    int64_t disk_free = -1;                 // bytes that regular-file writes may still add (-1 unlimited)
    std::string stdout_bytes, stderr_bytes, tty_bytes; // sinks (output of the run, not input)

    J to_json() const;
    void from_json(const J &j);
    const IdName *pw(uint32_t id) const { for (auto &e : passwd) if (e.id == id) return &e; return nullptr; }
    const IdName *gr(uint32_t id) const { for (auto &e : group) if (e.id == id) return &e; return nullptr; }
    const Proc *proc(int p) const { for (auto &e : procs) if (e.pid == p) return &e; return nullptr; }
    void render_proc();                     // (re)create /proc/<pid>/{stat,status,cgroup} nodes from procs
};

// --------------------------------------------------------------------- plan
struct Fault {
    std::string kind;                       // call kind: open read write close socket connect send stat ttyname_r getcwd gethostname getlogin_r getpwuid_r getgrgid_r time gettimeofday
    int nth = 0;                            // n-th call of that kind within the operation (0-based)
    int err = 0;                            // errno to fail with (0 for the special actions)
    int special = 0;                        // 1 short (count/2, at least 1), 2 early EOF
    bool sticky = false;                    // the condition persists: every call of that kind from the nth on fails (a dead disk stays dead, a directory stays a directory)
    J to_json() const { J j = J::obj(); j.set("kind", kind); j.set("nth", nth); j.set("err", err); j.set("special", special); if (sticky) j.set("sticky", true); return j; }
    static Fault from_json(const J &j) { Fault f; f.kind = j.gets("kind"); f.nth = (int)j.geti("nth"); f.err = (int)j.geti("err"); f.special = (int)j.geti("special"); f.sticky = j.getb("sticky"); return f; }
};

struct ExecOp {
    int api = 1;                            // 0 execv, 1 execve
    std::string path;
    bool argv_null = false, envp_null = false;
    std::vector<std::string> argv, envp;
    bool argv0_null_hidden = false;         // argv[0]==NULL but further strings follow in memory
    bool success = false;                   // simulated real exec succeeds (process image replaced)
    int ret = -1, err = 2;                  // otherwise: value returned and errno set by the real exec
    int forks_before = 0;                   // Batch: the calling thread forks this many times (child: one wrapped call, reported) before it makes the call
    int entry_errno = 0;                    // errno of the calling thread when it makes the call (whatever its last libc call left there)
    std::vector<Fault> faults;
    J to_json() const;
    static ExecOp from_json(const J &j);
};

struct Op {
    std::string op;                         // SetConfig, Exec, Batch, ForkExec, Mutate, CliConf
    // SetConfig
    int cfg_mode = 0;                       // 0 content, 1 absent, 2 open error (cfg_errno)
    int cfg_errno = 13;
    int cfg_file_mode = 0;                  // permission bits of the written file (0 = 0644)
    std::string cfg;
    // Exec
    ExecOp ex;
    // Batch: threads x calls, schedule policy
    std::vector<std::vector<ExecOp>> threads;
    int policy = 0;                         // 0 random walk, 1 PCT, 2 long park
    int pct_d = 1;
    uint64_t sched_seed = 0;
    int app_opens = 0;                      // Batch: a further thread of the caller (not inside the library) opens and closes that many descriptors of its own
    std::vector<int> schedule;              // explicit choices (replay); empty = generate from sched_seed
    bool have_schedule = false;
    // ForkExec: thread B runs `ex`; the forking thread forks when B is at scheduling point fork_point; the child runs child_ex
    int fork_point = 0;
    bool fork_window = false;               // ForkExec: while the forking thread is between its prepare and parent handlers, thread B is let run once more (it may walk into whatever the handlers hold)
    ExecOp child_ex;
    std::vector<ExecOp> extra_calls;        // ForkExec: further parent threads, each parked inside its call at extra_points[i] when the fork happens
    std::vector<int> extra_points;
    bool grandchild = false;
    bool roundtrip = false;                 // CliConf: write the reported values back into the config file and report again
    // Mutate: JSON patch merged into the world
    J patch;
    J to_json() const;
    static Op from_json(const J &j);
};

struct Plan {
    std::string property;
    uint64_t seed = 0;
    World world;
    std::vector<Op> ops;
    J extra = J::obj();                     // generator-specific facts the oracle needs (markers, expectations)
    J to_json() const;
    void from_json(const J &j);
};

// --------------------------------------------------------------------- history
struct Ev {
    int seq = 0, thr = 0, opi = -1;         // global sequence number, simulated thread, index of the Exec this belongs to
    std::string k;                          // call kind
    std::string s;                          // path / name argument
    long a = 0, b = 0, c = 0;               // numeric arguments (fd, flags, size ...)
    long ret = 0; int err = 0;
    std::string data;                       // bytes written / sent
    int mark = 0;                           // 1 BLOCKS, 2 SIGPIPE, 4 fault injected here
};
enum { MARK_BLOCKS = 1, MARK_SIGPIPE = 2, MARK_FAULT = 4, MARK_SIGXFSZ = 8 };

struct Snap {                               // process residue snapshot
    std::vector<int> sim_fds;               // open simulated descriptors
    std::string real_fds;                   // listing of /proc/self/fd
    long lib_live_allocs = 0, lib_live_bytes = 0;
    uint64_t env_sum = 0; std::string cwd; unsigned umask_v = 0; uint64_t sig_sum = 0;
    std::string locale;                     // setlocale(LC_ALL, NULL): the caller's locale is its state too
    int stream_locks = 0;                   // bit 0/1: the lock of the caller's stdout/stderr stream is held by somebody
};

struct ExecObs {                            // everything observed about one wrapped call
    int opi = -1, thr = 0;
    int ev_begin = 0, ev_end = 0;           // [begin,end) in the history (single-threaded runs: contiguous)
    int real_calls = 0;                     // how often the recorder was entered
    int real_api = -1;
    bool args_equal = true; std::string args_diff;
    bool returned = false; long ret = 0; int err = 0;
    int exec_seq = -1;                      // seq of the EXEC event
    size_t stdout_pending_at_exec = 0, stderr_pending_at_exec = 0;
    Snap before, at_exec, after;
    std::vector<Fault> fired;
    int steps = 0;                          // intercepted calls made by this operation
    int steps_after_exec = 0, heap_ops_after_exec = 0; // library activity after the real exec returned (failing exec)
    unsigned long self_tid = 0;             // pthread_self() of the caller
    std::string datetime_probe;             // harness-side strftime under the call's environment (see model)
};

// One delivered record, reconstructed from the history
struct Delivery {
    std::string sink;                       // "file:<path>", "sock:<path>", "stdout", "stderr", "tty", "null"
    std::string bytes;
    int writes = 0;                         // number of write/send calls it took
    long flags = 0;                         // open flags of the description
    int first_seq = 0, last_seq = 0;
    int opi = -1, thr = 0;
    int fdid = 0;
};

struct Verdict {
    bool violated = false;
    std::string cls, detail;                // violation class (stable across shrinking) and free text
    J to_json() const { J j = J::obj(); j.set("violated", violated); j.set("class", cls); j.set("detail", detail); return j; }
};

// --------------------------------------------------------------------- simulator core API (core.cpp)
struct RunResult {
    std::vector<Ev> hist;
    std::vector<ExecObs> obs;
    World end_world;
    std::string abort_class, abort_detail;  // deadlock / hang / harness problem detected while running
    std::vector<int> schedule;              // choices actually made (Batch / ForkExec)
    int sched_points = 0;
    int max_overlap = 0;                    // max number of threads simultaneously inside the library
    int blocked_on_mutex = 0;
    std::string app_damage;                 // Batch with an application thread: what happened to a descriptor of that thread
    J child;                                // ForkExec: what the child reported
    std::map<std::string, long> counters;   // probes and fault-fire counts
    J cli_conf2;                            // CliConf round trip: second report
    J cli_conf;                             // CliConf: option values reported by the library's own API
    uint64_t hash = 0;                      // normalised history hash
};

void sim_global_init();                    // resolve libsnoopy entry points, install hooks, probe the recorder
RunResult sim_run(const Plan &plan);       // executes the plan against the hosted production library
std::vector<Delivery> deliveries(const RunResult &r, int opi); // records that left the process during Exec #opi, before EXEC
std::vector<Delivery> deliveries_all(const RunResult &r, int opi); // same, including anything after EXEC
uint64_t fnv(const std::string &s, uint64_t h = 1469598103934665603ULL);
extern const char *g_variant;              // asan-ts / asan-nots / tsan-ts
extern bool g_thread_safe_build;
extern std::string g_snoopy_version;
#define SIM_CONFIG_PATH "/simroot/etc/snoopy.ini"
