// A check = plan generator + oracle for one property.
#pragma once
#include "core.hpp"
#include "model.hpp"
#include <functional>

struct Check {
    const char *id;
    std::function<Plan(uint64_t seed, const std::string &tier)> gen;
    std::function<Verdict(const Plan &, const RunResult &)> oracle;
    std::function<Verdict(const Plan &, const RunResult &)> on_abort;   // deadlock / hang found while running
    std::function<void(const Plan &, const RunResult &, J &line)> describe; // evidence: signature, nontrivial, probes
};
const Check *find_check(const char *id);
void register_check(const Check &c);
