// Model-refinement checks inside the simulated OS: C05 C06 C07 C08 C12 C14 C15, and C02 (sanitizer oracle).
#include "checks_common.hpp"
#include <functional>
#include <set>
#include <algorithm>


static Verdict judge_all(const Plan &p, const RunResult &r, bool passthrough = true) {
    for (auto &cv : calls_of(p)) {
        const ExecObs *o = obs_of(r, cv.opi); if (!o) continue;
        RecJudge j = judge_record(cv, r);
        if (j.v.violated) return j.v;
        if (passthrough) { Verdict v = passthrough_oracle(*cv.op, *o, r); if (v.violated) return v; }
    }
    return ok();
}
static std::string file_record(const RunResult &r, int opi, const std::string &path) {
    std::string s; for (auto &d : deliveries_all(r, opi)) if (d.sink == "file:" + path) s += d.bytes; return s;
}
static long pick_limit(Rng &r, long around) {
    switch (r.below(8)) {
    case 0: return 255;
    case 1: return 1048575;
    case 2: case 3: case 4: { long v = around + r.range(-2, 2); return v < 255 ? 255 : v > 1048575 ? 1048575 : v; }
    case 5: return r.range(255, 4096);
    default: return r.range(255, 1048575);
    }
}

// ------------------------------------------------------------------ C05
static Plan gen_c05(uint64_t seed, const std::string &tier) {
    (void)tier;
    Rng r(seed * 1000003 + 105);
    Plan p; p.property = "C05"; p.seed = seed; p.world = base_world();
    World &w = p.world; w.env.clear();
    if (r.chance(1, 4)) w.cwd_errno = 2;   // %{cwd} then fails without writing anything
    // pieces: literals use upper case / digits / punctuation; value i of a data source is made of the letter 'a'+i
    std::string fmt; J vals = J::arr(); int nvals = 0;
    ExecOp e; e.api = 1; e.path = "/bin/prog"; e.argv = {"prog"}; e.err = 2; e.ret = -1;
    int pieces = (int)r.range(1, 7);
    long biggest = 0, total = 0;
    bool used_cmdline = false, used_filename = false;
    std::vector<long> vlen;
    auto value = [&](size_t n) { char c = (char)('a' + nvals % 26); nvals++; vals.push(J((long)n)); vlen.push_back((long)n); return std::string(n, c); };
    auto sizecls = [&]() -> size_t { switch (r.below(6)) { case 0: return 0; case 1: return (size_t)r.range(1, 20); case 2: return (size_t)r.range(250, 260); case 3: return (size_t)r.range(200, 900); default: return (size_t)r.range(1, 60); } };
    for (int i = 0; i < pieces && fmt.size() < 800; i++) {
        switch (r.below(12)) {
        case 0: case 1: case 2: { static const char lit[] = "ABCDEFGHIJKLMNOPQRSTUVWXYZ0123456789 .,-_/%{}:[]="; size_t n = r.chance(1, 8) ? (size_t)r.range(250, 400) : (size_t)r.range(1, 30); if (fmt.size() + n > 900) n = 10; for (size_t k = 0; k < n; k++) fmt.push_back(lit[r.below(sizeof lit - 1)]); break; }
        case 3: case 4: { size_t n = sizecls(); if (fmt.size() + n > 900) n = 5; fmt += "%{snoopy_literal:" + value(n) + "}"; break; }
        case 5: case 6: { size_t n = r.chance(1, 3) ? (size_t)pick_limit(r, 2047) : sizecls(); if (n > 300000) n = 300000; std::string var = "VAR" + std::to_string(i); w.env.push_back(var + "=" + value(n)); fmt += "%{env:" + var + "}"; break; }
        case 7: if (!used_cmdline) { used_cmdline = true; size_t n = r.chance(1, 3) ? (size_t)pick_limit(r, 2047) : sizecls(); if (n > 300000) n = 300000; e.argv = {value(n)}; if (n == 0) { e.argv = {"", ""}; vals.a.back() = J(1L); vlen.back() = 1; }
            else if (n >= 4 && r.chance(1, 2)) {   // the same text as several arguments: boundaries between arguments fall at, just before and just after the limit
                std::string v = e.argv[0]; std::vector<size_t> cut;
                int nc = (int)r.below(4); for (int k = 0; k < nc; k++) cut.push_back((size_t)r.range(1, (int64_t)n - 2));
                if (r.chance(2, 3)) cut.push_back(n - (size_t)r.range(1, 3));
                for (size_t c : cut) if (c > 0 && c < n - 1) v[c] = ' ';
                e.argv.clear(); size_t from = 0;
                for (size_t k = 0; k <= v.size(); k++) if (k == v.size() || v[k] == ' ') { e.argv.push_back(v.substr(from, k - from)); from = k + 1; }
                if (r.chance(1, 3)) { e.argv.push_back(""); vals.a.back() = J((long)n + 1); vlen.back() = (long)n + 1; }
            }
            fmt += "%{cmdline}"; } break;
        case 8: if (!used_filename) { used_filename = true; size_t n = (size_t)r.range(1, 600); e.path = value(n); fmt += "%{filename}"; } break;
        case 9: fmt += r.chance(1, 2) ? "%{failure}" : "%{nosuch" + std::string(r.chance(1, 2) ? ":arg" : "") + "}"; break;
        case 10: { static const char *odd[] = {"%{}", "%{:x}", "%{noop}", "%{noop:arg}", "%{cwd}", "%{failure}", "%{snoopy_literal}", "%{snoopy_literal:}", "%{snoopy_literal}"}; fmt += odd[r.below(9)]; break; }   // (a bare %{env} prints "(undefined)", whose letters would disturb the per-letter accounting below)   // data sources that write nothing / fail
        default: { size_t n = r.chance(1, 3) ? (size_t)r.range(95, 105) : (size_t)r.range(1, 300); if (fmt.size() + n > 900) n = 5; fmt += "%{" + std::string(n, 'Q') + "}"; }
        }
    }
    if (r.chance(1, 10)) fmt += "%{snoopy_literal:unterminated";
    for (long l : vlen) { if (l > biggest) biggest = l; total += l; }
    total += (long)fmt.size();
    // keep the INI layer out of the way: no leading/trailing blanks, no " ;"
    for (size_t k = 1; k < fmt.size(); k++) if (fmt[k] == ';') fmt[k] = ',';
    while (!fmt.empty() && fmt.back() == ' ') fmt.pop_back();
    while (!fmt.empty() && (fmt[0] == ' ' || fmt[0] == '"' || fmt[0] == '\'' )) fmt.erase(0, 1);
    CfgSpec s; s.has_format = true; s.format = fmt;
    s.has_dsmax = true; s.dsmax = std::to_string(pick_limit(r, biggest));
    if (used_cmdline && e.argv.size() >= 2 && r.chance(1, 2)) {   // the limit falls exactly on (or next to) a boundary between two arguments
        size_t k = (size_t)r.range(1, (int64_t)e.argv.size() - 1); long len = (long)k - 1; for (size_t i = 0; i < k; i++) len += (long)e.argv[i].size();
        len += r.chance(1, 2) ? 0 : r.range(-1, 1);
        if (len >= 255 && len <= 1048575) s.dsmax = std::to_string(len);
    }
    // the message limit is aimed at the exact length of the expansion after each piece of the format (+-2), computed
    // with the reference expansion: boundaries in front of every "%{" and behind every "}"
    {
        std::vector<long> marks; ExecOp probe = e; CallCtx ctx; ctx.w = &w; ctx.op = &probe;
        for (size_t pos = 0; pos <= fmt.size(); pos++) {
            bool cut = pos == fmt.size() || fmt.compare(pos, 2, "%{") == 0 || (pos > 0 && fmt[pos - 1] == '}');
            if (!cut) continue;
            Expansion x = model_expand(fmt.substr(0, pos), 1048575, 1 << 30, ctx);
            marks.push_back((long)x.full.size());
        }
        long lm = pick_limit(r, total);
        if (!marks.empty() && r.chance(3, 4)) { lm = marks[r.below(marks.size())] + (r.chance(1, 3) ? r.range(0, 40) : r.range(-2, 2)); /* also: room for a part of the pieces of an [ERROR: ...] text only */ if (lm < 255) lm = 255; if (lm > 1048575) lm = 1048575; }
        s.has_logmax = true; s.logmax = std::to_string(lm);
    }
    int oc = (int)r.below(10);
    s.has_output = true;
    if (oc == 0) { s.output = "devlog"; s.has_ident = true; size_t n = r.chance(1, 2) ? (size_t)r.range(250, 260) : (size_t)r.range(1, 40); s.ident = r.chance(1, 2) ? std::string(n, 'I') : "%{snoopy_literal:" + std::string(n, 'i') + "}-%{uid}"; }
    else if (oc == 1) { size_t n = r.chance(1, 2) ? (size_t)r.range(4080, 4100) : (size_t)r.range(1, 200); w.env.push_back("PATHPART=" + std::string(n, 'p')); s.output = "file:/log/%{env:PATHPART}"; }
    else s.output = "file:/log/out";
    if (r.chance(1, 4)) { s.has_errlog = true; s.errlog = "yes"; if (r.chance(1, 2) && s.output == "file:/log/out") { w.env.push_back("PATHPART=" + std::string((size_t)r.range(1, 30), 'p')); s.output = "file:/log/%{env:PATHPART}-%{uid}"; } }   // every piece that does not fit is reported through the output while the message is being built
    p.ops.push_back(op_setconfig(s.render(r, true)));
    if (r.chance(1, 3)) p.ops.push_back(op_exec(e));   // not the first exec of the process: the same limits hold for every call
    p.ops.push_back(op_exec(e));
    p.extra.set("vals", vals);
    return p;
}
// a message in which some value was cut: literals and the values that fit appear verbatim and in order, and in the place of every
// cut value stands a non-empty prefix of it of at most datasource_message_max_length bytes (a limited value is shortened, not dropped)
static bool match_segments(const std::vector<Expansion::Seg> &segs, const std::string &rec, long dsmax) {
    std::set<std::pair<size_t, size_t>> seen;
    std::function<bool(size_t, size_t)> go = [&](size_t i, size_t pos) -> bool {
        if (i == segs.size()) return pos == rec.size();
        if (!seen.insert({i, pos}).second) return false;
        const Expansion::Seg &s = segs[i];
        if (!s.variable) { if (pos + s.text.size() > rec.size() || rec.compare(pos, s.text.size(), s.text) != 0) return false; return go(i + 1, pos + s.text.size()); }
        size_t lcp = 0; while (lcp < s.text.size() && pos + lcp < rec.size() && lcp < (size_t)dsmax && rec[pos + lcp] == s.text[lcp]) lcp++;
        for (size_t k = lcp; k >= 1; k--) if (go(i + 1, pos + k)) return true;   // cut, not dropped: at least one byte of the value stands in its place
        return false;
    };
    return go(0, 0);
}
static Verdict oracle_c05(const Plan &p, const RunResult &r) {
    Verdict v = judge_all(p, r);
    if (v.violated) return v;
    for (auto &cv : calls_of(p)) {
        CallCtx ctx = make_ctx(cv.w, *cv.op, r, cv.opi);
        Expected e = model_call(cv.w, *cv.op, ctx);
        if (!e.log || e.sink.compare(0, 5, "file:") != 0) continue;
        std::string rec;
        if (e.cfg.error_logging) {
            // with error logging on, every piece that does not fit is reported through the same output: those lines are not the message
            for (auto &d : deliveries_all(r, cv.opi)) if (d.sink == e.sink && d.bytes != "Maximum destination string size exceeded\n") rec += d.bytes;
        } else rec = file_record(r, cv.opi, e.sink.substr(5));
        if (rec.empty()) continue;
        if (rec.back() == '\n') rec.pop_back();
        // whatever the limits leave of the message is made of the expansion: it can be obtained from it by leaving bytes out (pieces
        // that did not fit, tails that were cut), never by putting in bytes that are not part of it
        if (!e.msg.exact && e.msg.modelled && !e.msg.texts.empty()) {
            bool sub = false;
            for (auto &full : e.msg.texts) { size_t k = 0; for (size_t i = 0; i < full.size() && k < rec.size(); i++) if (full[i] == rec[k]) k++; if (k == rec.size()) { sub = true; break; } }
            if (!sub) return bad("limited-message-not-from-expansion", "call #" + std::to_string(cv.opi) + ": the limited message contains bytes that are not part of the expansion of the format: " + show(rec.size() > 160 ? rec.substr(rec.size() - 160) : rec, 160) + " ; full expansion ends " + show(e.msg.texts[0].size() > 160 ? e.msg.texts[0].substr(e.msg.texts[0].size() - 160) : e.msg.texts[0], 160));
        }
        if ((long)rec.size() > e.cfg.logmax) return bad("message-over-limit", "message of " + std::to_string(rec.size()) + " bytes with log_message_max_length = " + std::to_string(e.cfg.logmax));
        if (!e.msg.exact && e.msg.segs_ok && e.msg.cut_total <= e.cfg.logmax && !e.cfg.error_logging && !match_segments(e.msg.segs, rec, e.cfg.dsmax))
            return bad("cut-message-structure", "call #" + std::to_string(cv.opi) + ": some value exceeds datasource_message_max_length = " + std::to_string(e.cfg.dsmax) + " and the whole still fits log_message_max_length, but the record is not 'literals and fitting values verbatim, a non-empty prefix of at most that many bytes for each cut value': " + show(rec, 160));
        const J &vals = p.extra.at("vals");
        for (size_t i = 0; i < vals.a.size() && i < 26; i++) {
            long cnt = (long)std::count(rec.begin(), rec.end(), (char)('a' + i));
            long full = vals.a[i].i;
            // error texts contain lower-case letters: only judge letters whose count can be attributed
            if (full > 40 && cnt > e.cfg.dsmax + 40) return bad("datasource-over-limit", "data source value #" + std::to_string(i) + " contributes " + std::to_string(cnt) + " bytes with datasource_message_max_length = " + std::to_string(e.cfg.dsmax));
            if (full > 40 && cnt > e.cfg.dsmax && e.msg.shape.find_first_of("F?U") == std::string::npos) return bad("datasource-over-limit", "data source value #" + std::to_string(i) + " contributes " + std::to_string(cnt) + " bytes with datasource_message_max_length = " + std::to_string(e.cfg.dsmax));
        }
    }
    return ok();
}
static void describe_c05(const Plan &p, const RunResult &r, J &line) {
    for (auto &cv : calls_of(p)) {
        CallCtx ctx = make_ctx(cv.w, *cv.op, r, cv.opi);
        Expected e = model_call(cv.w, *cv.op, ctx);
        std::string bind = !e.msg.exact ? ((long)e.msg.full.size() > e.cfg.logmax ? "L" : "D") : "X";
        line.set("sig", e.msg.shape + "|" + bind + "|" + e.cfg.output); line.set("nontrivial", e.msg.tags >= 1);
        long full = (long)e.msg.full.size();
        if (full == e.cfg.logmax) line.set("p_total_eq_logmax", true);
        if (full == e.cfg.logmax + 1) line.set("p_total_eq_logmax_plus1", true);
        for (auto &x : p.extra.at("vals").a) { if (x.i == e.cfg.dsmax) line.set("p_value_eq_dsmax", true); if (x.i == e.cfg.dsmax + 1) line.set("p_value_eq_dsmax_plus1", true); }
        if (e.msg.shape.find('?') != std::string::npos) line.set("p_unknown", true);
        if (e.msg.shape.find('U') != std::string::npos) line.set("p_unterminated", true);
        if (e.msg.shape.find('F') != std::string::npos) line.set("p_failing", true);
        if (e.cfg.output == "devlog") line.set("p_ident", true);
        if (e.cfg.output_arg.find("%{") != std::string::npos) line.set("p_path_template", true);
    }
}
static Reg reg_c05({"C05", gen_c05, oracle_c05, nullptr, describe_c05});

// ------------------------------------------------------------------ C06
static Plan gen_c06(uint64_t seed, const std::string &tier) {
    Rng r(seed * 1000003 + 106);
    Plan p; p.property = "C06"; p.seed = seed; p.world = base_world();
    long dsmax = r.chance(1, 2) ? 2047 : pick_limit(r, 600);
    CfgSpec s; s.has_format = true; s.format = r.chance(1, 2) ? "F=%{filename} C=%{cmdline}" : "%{cmdline}|%{filename}";
    s.has_output = true; s.output = "file:/log/hist"; s.has_dsmax = true; s.dsmax = std::to_string(dsmax);
    s.has_logmax = true; s.logmax = "1048575";
    p.ops.push_back(op_setconfig(s.render(r, true)));
    int n = (int)r.range(2, tier == "thorough" ? 30 : 10);
    J markers = J::arr();
    for (int i = 0; i < n; i++) {
        std::string m = "Mk" + std::to_string(i) + "q7Z9w";
        ExecOp e; e.api = (int)r.below(2); e.err = r.chance(1, 2) ? 2 : 13; e.ret = -1;
        e.path = "/p/" + m + "_" + gen_token(r, 0, 20, 0);
        if (r.chance(1, 4)) { static const char *pc[] = {"%s", "%m", "%%", "%d", "%20f", "%", "%5$s", "100%"}; e.path += pc[r.below(8)]; if (r.chance(1, 2)) e.path += gen_token(r, 0, 5, 0); }   // paths are data, never formats
        bool empty_path = r.chance(1, 14); if (empty_path) e.path = "";   // execv("", ...) is a legal call too (it fails with ENOENT)
        int shape = (int)r.below(9);
        if (empty_path && r.chance(1, 2)) shape = (int)r.below(2);
        if (shape == 0) e.argv_null = true;
        else if (shape == 1) {}
        else if (shape == 2) { e.argv0_null_hidden = true; e.argv = {m + "hid"}; }
        else if (shape == 8) {   // very many entries that are mostly empty strings: the joined text stays around the limit while the count is far above limit/2
            long cnt = (long)r.range(dsmax / 4, dsmax * 3 / 2); if (cnt > 20000) cnt = 20000;
            int empties = (int)r.below(3);
            e.argv.push_back(r.chance(1, 2) ? m : "");
            for (long k = 0; k < cnt; k++) e.argv.push_back((empties == 0 || !r.chance(1, empties == 1 ? 20 : 4)) ? "" : std::string(1, (char)('a' + r.below(26))));
            e.argv.push_back(m + "last");
        }
        else {
            size_t cnt = shape == 3 ? (size_t)r.range(300, 3000) : (size_t)r.range(1, 6);
            bool lng = shape == 4 || shape == 5;
            for (size_t k = 0; k < cnt; k++) { size_t len = lng ? (size_t)r.range(dsmax / 2, dsmax * 2) : (size_t)r.range(0, 12); std::string a = r.chance(1, 10) ? "" : m + gen_token(r, len > 100000 ? 100000 : len, len > 100000 ? 100000 : len, (int)r.below(3)); e.argv.push_back(a); }
        }
        if (r.chance(1, 8) && i + 1 < n) { Fault f; static const char *k[] = {"open", "write", "close", "read"}; f.kind = k[r.below(4)]; f.nth = (int)r.below(2); f.err = 5; e.faults.push_back(f); }
        markers.push(J(m));
        p.ops.push_back(op_exec(e));
    }
    p.extra.set("markers", markers);
    return p;
}
static Verdict oracle_c06(const Plan &p, const RunResult &r) {
    auto calls = calls_of(p);
    for (auto &cv : calls) {
        const ExecObs *o = obs_of(r, cv.opi); if (!o) continue;
        std::string got; for (auto &d : deliveries_all(r, cv.opi)) got += d.bytes;
        for (auto &prev : calls) {
            if (prev.opi >= cv.opi) break;
            // the marker is part of the earlier call's own path: /p/Mk<i>q7Z9w_...
            size_t a = prev.op->path.find("Mk"), b = prev.op->path.find("q7Z9w");
            if (a == std::string::npos || b == std::string::npos) continue;
            std::string m = prev.op->path.substr(a, b + 5 - a);
            if (cv.op->path.find(m) != std::string::npos) continue;
            if (got.find(m) != std::string::npos) return bad("stale-data", "record of call #" + std::to_string(cv.opi) + " contains marker " + m + " of earlier call #" + std::to_string(prev.opi) + ": " + show(got, 200));
        }
        if (!cv.op->faults.empty()) continue;       // faulted calls are history, not judged
        RecJudge j = judge_record(cv, r);
        if (j.v.violated) return j.v;
        // truncation: the value must be a prefix of the full text
        CallCtx ctx = make_ctx(cv.w, *cv.op, r, cv.opi);
        Expected e = model_call(cv.w, *cv.op, ctx);
        if (e.log && !e.exact && !got.empty()) {
            DsVal cm = model_ds("cmdline", "", ctx);
            bool cfirst = e.cfg.message_format[0] == '%';
            std::string body = got; if (!body.empty() && body.back() == '\n') body.pop_back();
            std::string tail = "|" + cv.op->path;   // the path may be empty
            std::string part = cfirst ? (cv.op->path.empty() && body.size() >= tail.size() && body.compare(body.size() - tail.size(), tail.size(), tail) == 0 ? body.substr(0, body.size() - tail.size()) : body.substr(0, body.find("|/p/") == std::string::npos ? body.size() : body.find("|/p/"))) : (body.find(" C=") == std::string::npos ? "" : body.substr(body.find(" C=") + 3));
            if (cm.text.compare(0, part.size(), part) != 0) return bad("cmdline-not-a-prefix", "call #" + std::to_string(cv.opi) + ": logged cmdline is not a prefix of the joined arguments: " + show(part, 100));
            if ((long)part.size() > e.cfg.dsmax + 0) return bad("datasource-over-limit", "call #" + std::to_string(cv.opi) + ": cmdline contributes " + std::to_string(part.size()) + " bytes, limit " + std::to_string(e.cfg.dsmax));
        }
    }
    return ok();
}
static void describe_c06(const Plan &p, const RunResult &r, J &line) {
    (void)r;
    std::string sig; int n = 0; bool prev_long = false;
    for (auto &cv : calls_of(p)) {
        const ExecOp &e = *cv.op; n++;
        size_t tot = 0; for (auto &a : e.argv) tot += a.size() + 1;
        char c = e.argv_null ? 'N' : e.argv0_null_hidden ? 'H' : e.argv.empty() ? '0' : tot > 2000 ? 'L' : 's';
        sig.push_back(c); sig.push_back(e.api ? 'e' : 'v');
        if (prev_long && c == 's') line.set("p_long_then_short", true);
        if (prev_long && (c == 'N' || c == '0')) line.set("p_null_after_long", true);
        if (tot > 2047) line.set("p_truncation", true);
        prev_long = c == 'L';
    }
    line.set("sig", sig); line.set("nontrivial", n >= 2);
}
static Reg reg_c06({"C06", gen_c06, oracle_c06, nullptr, describe_c06});

// ------------------------------------------------------------------ C07
#define C07_N 16
static const char *C07_ALPHA[C07_N] = {"only_root", "only_tty", "noop", "only_uid:0", "only_uid:1000,0", "exclude_uid:0", "exclude_uid:7,1000", "exclude_spawns_of:sshd", "exclude_spawns_of:cron,bash", "nosuchfilter", "nosuchfilter:arg", "",
    "only_uid", "exclude_uid", "exclude_spawns_of", "only_tty:ignored"};   // bare names: the argument is empty (empty list)
#define C07_EXH (C07_N + C07_N * C07_N + C07_N * C07_N * C07_N)
static World c07_world(int wi) {
    World w = base_world();
    static const uint32_t uids[3] = {0, 1000, 4321};
    w.uid = uids[wi % 3]; w.euid = 0; w.tty_state = (wi / 3) % 2 ? 2 : 0;
    bool anc = (wi / 6) % 2;
    w.procs = {{4242, 4000, "worker", {}}, {4000, 3000, anc ? "sshd" : "zsh", {}}, {3000, 1, "login", {}}, {1, 0, "systemd", {}}};
    w.ppid = 4000;
    return w;
}
static Plan gen_c07(uint64_t seed, const std::string &tier) {
    (void)tier;
    Plan p; p.property = "C07"; p.seed = seed;
    uint64_t idx = seed % 100000000ULL;   // low seeds enumerate the exhaustive sub-space
    Rng r(seed * 1000003 + 107);
    std::vector<std::string> els;
    if (idx < (uint64_t)C07_EXH * 12) {
        int wi = (int)(idx % 12); uint64_t ci = idx / 12;
        p.world = c07_world(wi);
        if (ci < C07_N) els = {C07_ALPHA[ci]};
        else if (ci < C07_N + C07_N * C07_N) { ci -= C07_N; els = {C07_ALPHA[ci / C07_N], C07_ALPHA[ci % C07_N]}; }
        else { ci -= C07_N + C07_N * C07_N; els = {C07_ALPHA[ci / (C07_N * C07_N)], C07_ALPHA[(ci / C07_N) % C07_N], C07_ALPHA[ci % C07_N]}; }
        p.extra.set("exhaustive", true);
    } else {
        p.world = gen_world(r);
        int n = (int)r.range(0, 20);
        for (int i = 0; i < n; i++) {
            std::string c = gen_chain(r, p.world, 1);
            while (!c.empty() && c.back() == ';') c.pop_back();
            if (r.chance(1, 8) && !c.empty()) c = (r.chance(1, 2) ? ":" : "::") + c;   // an element without a name: whatever follows the colon is its argument, never a filter
            els.push_back(c);
        }
    }
    auto join = [&](const std::vector<std::string> &v) { std::string s; for (size_t i = 0; i < v.size(); i++) { if (i) s += ";"; s += v[i]; } if (r.chance(1, 4)) s += ";"; while (!s.empty() && (s[0] == ' ')) s.erase(0, 1); return s.substr(0, 900); };
    std::vector<std::string> perm = els, dup = els;
    for (size_t i = perm.size(); i > 1; i--) std::swap(perm[i - 1], perm[r.below(i)]);
    if (!dup.empty()) { size_t k = r.below(dup.size()); dup.insert(dup.begin() + (long)r.below(dup.size() + 1), dup[k]); }
    std::string outv = r.chance(1, 2) ? "file:/log/c07" : gen_output_value(r, p.world);
    for (auto &chain : {join(els), join(perm), join(dup)}) {
        CfgSpec s; s.has_chain = true; s.chain = chain; s.has_format = true; s.format = "X%{filename}"; s.has_output = true; s.output = outv;
        // a dropped call is silent - also when its message would not have fitted and error logging is on
        bool noisy = !p.extra.getb("exhaustive") && seed % 5 == 0;
        if (noisy) { s.format = "X%{filename} %{cmdline} %{cmdline}"; s.has_errlog = true; s.errlog = "yes"; s.has_logmax = true; s.logmax = "255";
                     if (s.output.find("%{datetime") != std::string::npos) s.output = "file:/log/c07"; }   // several dispatches per call: a path that names the day could change between them at midnight
        p.ops.push_back(op_setconfig(s.render(r, true)));
        ExecOp e; e.api = (int)r.below(2); e.path = "/bin/x"; e.argv = {"x"}; if (noisy) e.argv = {"x", std::string(300, 'L')}; gen_outcome(r, e, false);
        p.ops.push_back(op_exec(e));
    }
    return p;
}
static Verdict oracle_c07(const Plan &p, const RunResult &r) {
    Verdict v = judge_all(p, r);
    if (v.violated) return v;
    auto calls = calls_of(p);
    std::vector<int> logged;
    for (auto &cv : calls) { bool any = false; for (auto &d : deliveries_all(r, cv.opi)) if (!d.bytes.empty()) any = true; logged.push_back(any); }
    MCfg c0 = model_config(calls[0].w);
    if (c0.output != "noop" && !(c0.output == "file" && c0.output_arg.empty()))
        for (size_t i = 1; i < logged.size(); i++) if (logged[i] != logged[0]) {
            Expected e; CallCtx ctx = make_ctx(calls[0].w, *calls[0].op, r, 0); e = model_call(calls[0].w, *calls[0].op, ctx);
            if (!e.sink_usable) break;
            return bad("order-dependent", std::string("chain '") + c0.filter_chain + "' " + (logged[0] ? "logs" : "drops") + " but its " + (i == 1 ? "permutation" : "duplication") + " '" + model_config(calls[i].w).filter_chain + "' does the opposite");
        }
    return ok();
}
static void describe_c07(const Plan &p, const RunResult &r, J &line) {
    (void)r;
    auto calls = calls_of(p);
    MCfg c = model_config(calls[0].w); int known = 0; std::string shape;
    bool pass = model_filter_chain(c.filter_chain, calls[0].w, &known, &shape);
    line.set("sig", shape + "|u" + std::to_string(calls[0].w.uid == 0 ? 0 : 1) + "t" + std::to_string(calls[0].w.tty_state) + (pass ? "|log" : "|drop"));
    line.set("nontrivial", known >= 1);
    if (p.extra.getb("exhaustive")) line.set("p_exhaustive_alphabet", true);
    if (shape.find('?') != std::string::npos && known >= 1) line.set("p_unknown_between_known", true);
    if (!pass) { size_t firstdrop = shape.find('-'); int idx = (int)std::count(shape.begin(), shape.begin() + (long)firstdrop, ';'); if (idx >= 1) line.set("p_drop_by_later_element", true); }
    if (c.filter_chain.find(";;") != std::string::npos || (!c.filter_chain.empty() && c.filter_chain.back() == ';')) line.set("p_empty_elements", true);
}
static Reg reg_c07({"C07", gen_c07, oracle_c07, nullptr, describe_c07});

// ------------------------------------------------------------------ C14
static Plan gen_c14(uint64_t seed, const std::string &tier) {
    (void)tier;
    Rng r(seed * 1000003 + 114);
    Plan p; p.property = "C14"; p.seed = seed; p.world = base_world();
    World &w = p.world; w.uid = gen_id(r); w.euid = gen_id(r);
    int n = (int)(r.chance(1, 6) ? r.range(100, 200) : r.range(1, 8));
    bool want_member = r.chance(1, 2);
    std::vector<std::string> items; std::string us = std::to_string(w.uid);
    for (int i = 0; i < n; i++) {
        switch (r.below(7)) {
        case 0: items.push_back(std::to_string((uint32_t)(w.uid + 1))); break;
        case 1: items.push_back(std::to_string(w.uid ? w.uid - 1 : 1)); break;
        case 2: items.push_back(us.size() > 1 ? us.substr(0, us.size() - 1) : "99"); break;       // decimal prefix
        case 3: items.push_back(us.size() > 1 ? us.substr(1) : "77"); break;                      // decimal suffix
        case 4: items.push_back(std::to_string(w.euid == w.uid ? 12345u : w.euid)); break;        // the effective uid is a near miss too
        case 5: items.push_back(us + "0"); break;
        default: items.push_back(std::to_string(gen_id(r)));
        }
    }
    for (auto &it : items) { if (strtoull(it.c_str(), 0, 10) > 4294967295ULL) it = "4294967295"; if (it.size() > 1 && it[0] == '0') it = "5"; }
    // decimal numerals may be written with leading zeros (010 is ten): such spellings of near misses, and below of the uid itself
    for (int k = 0; k < 3; k++) if (r.chance(1, 3)) { uint32_t v = r.chance(1, 2) ? (uint32_t)r.range(8, 99) : (uint32_t)(w.uid + 1 + r.below(3)); if (v != w.uid) items.push_back(std::string(r.chance(1, 2) ? "0" : "00") + std::to_string(v)); }
    for (auto it = items.begin(); it != items.end();) { if ((uint32_t)strtoull(it->c_str(), 0, 10) == w.uid) it = items.erase(it); else ++it; }
    int pos = -1;
    if (want_member) { pos = (int)r.below(items.size() + 1); if (r.chance(1, 3)) pos = (int)items.size(); items.insert(items.begin() + pos, r.chance(1, 6) ? "0" + us : us); if (r.chance(1, 4)) items.push_back(us); }
    if (items.empty()) items.push_back(std::to_string((uint32_t)(w.uid + 1)));
    std::string L; for (size_t i = 0; i < items.size(); i++) { if (i) L += ","; L += items[i]; }
    L = L.substr(0, 900); while (!L.empty() && L.back() == ',') L.pop_back();
    // the process may change its real uid between two execs (a daemon dropping privileges after a failed exec, su): the second round
    // of calls is decided by the uid the process has then
    bool second = r.chance(1, 2);
    uint32_t uid2 = w.uid == 0 ? (uint32_t)r.range(1, 70000) : r.chance(1, 3) ? 0u : want_member ? (uint32_t)(w.uid + 1) : (items.empty() ? w.uid + 1 : (uint32_t)strtoull(items[r.below(items.size())].c_str(), 0, 10));
    for (int round = 0; round < (second ? 2 : 1); round++) {
        if (round == 1) { Op m; m.op = "Mutate"; m.patch = J::obj(); m.patch.set("uid", (unsigned long long)uid2); p.ops.push_back(m); }
        for (auto &chain : {"only_uid:" + L, "exclude_uid:" + L, std::string("only_root")}) {
            CfgSpec s; s.has_chain = true; s.chain = chain; s.has_format = true; s.format = "logged"; s.has_output = true; s.output = "file:/log/c14";
            p.ops.push_back(op_setconfig(s.render(r, true)));
            ExecOp e; e.path = "/bin/x"; e.argv = {"x"}; p.ops.push_back(op_exec(e));
        }
    }
    p.extra.set("member", want_member); p.extra.set("pos", pos); p.extra.set("n", (long)items.size()); p.extra.set("uid_changes", second);
    return p;
}
static Verdict oracle_c14(const Plan &p, const RunResult &r) {
    Verdict v = judge_all(p, r, false);
    if (v.violated) { v.cls = "uid-filter-" + v.cls; return v; }
    auto calls = calls_of(p);
    bool a = !file_record(r, 0, "/log/c14").empty(), b = !file_record(r, 1, "/log/c14").empty();
    if (a == b) return bad("uid-filters-agree", "only_uid and exclude_uid with the same list both " + std::string(a ? "log" : "drop") + " for uid " + std::to_string(calls[0].w.uid));
    if (calls.size() >= 5) {
        bool a2 = file_record(r, calls[3].opi, "/log/c14").size() > 0, b2 = file_record(r, calls[4].opi, "/log/c14").size() > 0;
        if (a2 == b2) return bad("uid-filters-agree", "after the uid change: only_uid and exclude_uid with the same list both " + std::string(a2 ? "log" : "drop") + " for uid " + std::to_string(calls[3].w.uid));
    }
    return ok();
}
static void describe_c14(const Plan &p, const RunResult &r, J &line) {
    (void)r; const World &w = p.world;
    std::string ucls = w.uid == 0 ? "0" : w.uid < 65000 ? "s" : w.uid < 70000 ? "64k" : w.uid < 2147483648u ? "31" : "32";
    long n = p.extra.geti("n"); bool mem = p.extra.getb("member"); long pos = p.extra.geti("pos");
    line.set("sig", ucls + "|n" + std::to_string(n < 4 ? n : n < 50 ? 4 : 5) + "|" + (mem ? (pos == 0 ? "first" : pos >= n - 2 ? "last" : "mid") : "absent") + (w.uid == w.euid ? "|same" : "|diff"));
    line.set("nontrivial", n >= 1);
    if (w.uid >= 2147483648u) line.set("p_uid_ge_2_31", true);
    if (mem && n >= 100 && pos >= n - 2) line.set("p_match_last_of_many", true);
    if (!mem) line.set("p_near_miss_only", true);
    if (p.extra.getb("uid_changes")) line.set("p_uid_changes_between_calls", true);
}
static Reg reg_c14({"C14", gen_c14, oracle_c14, nullptr, describe_c14});

// ------------------------------------------------------------------ C15
static Plan gen_c15(uint64_t seed, const std::string &tier) {
    (void)tier;
    Rng r(seed * 1000003 + 115);
    Plan p; p.property = "C15"; p.seed = seed; p.world = base_world();
    World &w = p.world;
    int depth = (int)r.range(1, 12);
    static const char *names[] = {"bash", "bash2", "ba", "sshd", "my prog", "a)b", "(paren)", "x", "fifteen-bytes-ok", "cron", "sudo", "tmux: server", ") S 1", "sh", "worker"};
    static const char *odd_names[] = {"ab\ncd", "\nlead", "tab\tname", "trail\n", " lead", "trail ", "cr\rlf"};   // prctl(PR_SET_NAME) takes any bytes; the stat file prints them raw
    w.procs.clear();
    std::vector<int> pids = {w.pid};
    // pids up to the kernel's maximum (4194304): 7-digit pids next to 15-byte names make the longest stat lines
    int pidcls = (int)r.below(3);
    for (int i = 0; i < depth; i++) { int p; bool dup; do { p = pidcls == 0 ? 1000 + i * 37 + (int)r.below(30) : pidcls == 1 ? (int)r.range(2, 4194303) : (int)r.range(1000000, 4194303); dup = false; for (int q : pids) if (q == p) dup = true; } while (dup); pids.push_back(p); }
    if (pidcls == 2) { w.pid = (int)r.range(1000000, 4194303); pids[0] = w.pid; }
    pids.push_back(r.chance(1, 8) ? 0 : 1);
    for (size_t i = 0; i + 1 < pids.size(); i++) { Proc pr; pr.pid = pids[i]; pr.ppid = pids[i + 1]; pr.comm = std::string(names[r.below(15)]).substr(0, 15); if (i > 0 && r.chance(1, 12)) pr.comm = odd_names[r.below(7)]; w.procs.push_back(pr); }
    if (pids.back() == 1) { Proc in; in.pid = 1; in.ppid = 0; in.comm = "systemd"; w.procs.push_back(in); }
    w.ppid = pids[1];
    int fail_depth = -1;
    if (r.chance(1, 4)) { fail_depth = (int)r.range(1, depth); static const int how[] = {2, 13, -1, -2}; w.procs[(size_t)fail_depth].stat_errno = how[r.below(4)]; }
    if (r.chance(1, 10)) { w.procs.erase(w.procs.begin() + (long)r.range(1, (int)w.procs.size() - 1)); }   // ancestor vanished
    // the list
    int mode = (int)r.below(4); int match_pos = -1;
    auto make_list = [&](int md, size_t maxlen) {
        int n = (int)(r.chance(1, 8) ? r.range(20, 50) : r.range(1, 5));
        std::vector<std::string> L;
        for (int i = 0; i < n; i++) L.push_back(r.chance(1, 6) ? "" : std::string(names[r.below(15)]) + (r.chance(1, 2) ? "_no" : "x"));
        if (md == 0) { match_pos = (int)r.range(1, (int)w.procs.size() - 1); L[r.below(L.size())] = w.procs[(size_t)match_pos].comm; }
        else if (md == 1) { L[r.below(L.size())] = w.procs[0].comm; for (size_t k = 1; k < w.procs.size(); k++) if (w.procs[k].comm == w.procs[0].comm) w.procs[k].comm = "other"; }   // only the process itself is listed
        else if (md == 2) { std::string c = w.procs[(size_t)r.range(1, (int)w.procs.size() - 1)].comm; L[r.below(L.size())] = r.chance(1, 2) ? c.substr(0, c.size() > 1 ? c.size() - 1 : 1) + (c.size() > 1 ? "" : "q") : c + "2"; }  // prefix / extension near miss
        if (r.chance(1, 4) && !L.empty()) L.push_back(L[r.below(L.size())]);
        std::string arg; for (size_t i = 0; i < L.size(); i++) { if (i) arg += ","; arg += L[i]; }
        for (auto &ch : arg) if (ch == ';') ch = '_';
        while (!arg.empty() && (arg.back() == ' ' || arg.back() == ',')) arg.pop_back();
        return arg.substr(0, maxlen);
    };
    int shape = (int)r.below(6);   // 0-3 one filter, one call; 4 two instances with different lists in one chain; 5 a second call of the process under another list
    CfgSpec s; s.has_chain = true; s.has_format = true; s.format = "logged"; s.has_output = true; s.output = "file:/log/c15";
    if (shape == 4) { int m2 = mode == 0 ? (int)r.range(1, 3) : 0; bool first = r.chance(1, 2); std::string a = make_list(first ? mode : m2, 440), b = make_list(first ? m2 : mode, 440); s.chain = "exclude_spawns_of:" + a + ";exclude_spawns_of:" + b; }
    else s.chain = "exclude_spawns_of:" + make_list(mode, 900);
    p.ops.push_back(op_setconfig(s.render(r, true)));
    ExecOp e; e.path = "/bin/x"; e.argv = {"x"}; p.ops.push_back(op_exec(e));
    if (shape == 5) {   // the exec failed (PATH walk) and the process tries again after snoopy.ini was edited: the verdict belongs to the list of the call
        CfgSpec s2 = s; s2.chain = "exclude_spawns_of:" + make_list(mode == 0 ? (int)r.range(1, 3) : 0, 900);
        p.ops.push_back(op_setconfig(s2.render(r, true)));
        ExecOp e2; e2.path = "/usr/bin/x"; e2.argv = {"x"}; p.ops.push_back(op_exec(e2));
    }
    p.extra.set("depth", depth); p.extra.set("mode", mode); p.extra.set("match_pos", match_pos); p.extra.set("fail_depth", fail_depth);
    return p;
}
static Verdict oracle_c15(const Plan &p, const RunResult &r) {
    Verdict v = judge_all(p, r, false);
    if (v.violated) { v.cls = "spawns-filter-" + v.cls; }
    return v;
}
static void describe_c15(const Plan &p, const RunResult &r, J &line) {
    (void)r;
    long d = p.extra.geti("depth"), m = p.extra.geti("mode"), mp = p.extra.geti("match_pos"), fd = p.extra.geti("fail_depth");
    bool bigpid = false; for (auto &pr : p.world.procs) if (pr.pid >= 1000000) bigpid = true;
    line.set("sig", "d" + std::to_string(d) + "m" + std::to_string(m) + "p" + std::to_string(mp) + "f" + std::to_string(fd) + (bigpid ? "P" : ""));
    if (bigpid) line.set("p_seven_digit_pids", true);
    line.set("nontrivial", d >= 1);
    if (m == 0 && mp >= 10) line.set("p_match_deep", true);
    if (m == 1) line.set("p_self_only", true);
    if (fd >= 0 && mp > fd) line.set("p_unreadable_before_match", true);
    for (auto &pr : p.world.procs) if (pr.comm.find(')') != std::string::npos) line.set("p_name_with_paren", true);
}
static Reg reg_c15({"C15", gen_c15, oracle_c15, nullptr, describe_c15});

// ------------------------------------------------------------------ C12
static const char *C12_DS[] = {"uid", "euid", "gid", "egid", "username", "eusername", "group", "egroup", "pid", "ppid", "sid", "tid", "tid_kernel", "cwd", "hostname", "tty", "tty_uid",
    "tty_username", "login", "rpname", "snoopy_version", "timestamp", "timestamp_ms", "timestamp_us", "datetime", "env_all", "domain", "ipaddr", "systemd_unit_name"};
static Plan gen_c12(uint64_t seed, const std::string &tier) {
    (void)tier;
    Rng r(seed * 1000003 + 112);
    Plan p; p.property = "C12"; p.seed = seed; p.world = gen_world(r);
    World &w = p.world;
    if (w.cwd.size() > 300) w.cwd = w.cwd.substr(0, 300);
    // a working directory reached by relative steps can be longer than the kernel's getcwd names (4095 bytes): glibc then walks up ".." and
    // names it as long as the caller's buffer holds it
    if (r.chance(1, 12)) { static const int L[] = {4094, 4095, 4096, 4097, 4100, 6000}; size_t want = (size_t)L[r.below(6)]; w.cwd.clear(); while (w.cwd.size() < want) { size_t c = std::min<size_t>(want - w.cwd.size() - 1, 200); if (c == 0) { w.cwd.back() = 'y'; w.cwd += "z"; break; } w.cwd += "/" + std::string(c, (char)('a' + w.cwd.size() % 26)); } w.cwd_errno = 0; }
    if (w.env.size() > 40 && r.chance(2, 3)) w.env.resize(40);
    std::vector<std::string> tags;
    for (auto d : C12_DS) tags.push_back(d);
    static const char *fm[] = {"%Y-%m-%d", "%s", "%H:%M:%S %Z", "%FT%T%z", "%a %b %e %j", "%G-W%V-%u", "%y%m%d%H%M%S", "%c", "%D %R"};
    tags.push_back(std::string("datetime:") + fm[r.below(9)]);
    for (int k = 0; k < 3; k++) tags.push_back("env:" + (w.env.empty() || r.chance(1, 3) ? "UNSET" + std::to_string(k) : w.env[r.below(w.env.size())].substr(0, w.env[0].find('='))));
    for (auto c : {"0", "1", "12", "cpu", "pids", "name=systemd", "nosuch", "cpuset", "net_cls", "4"}) if (r.chance(1, 2)) tags.push_back(std::string("cgroup:") + c);
    if (r.chance(1, 3) && !w.procs.empty()) {   // co-mounted controllers in the orders distributions use: the wanted name may follow one that contains it
        static const char *co[] = {"4:cpuacct,cpu:/user.slice", "4:cpu,cpuacct:/user.slice", "7:net_prio,net_cls:/", "9:xcpu,cpu,cpuset:/x", "3:cpuset:/", "6:cpuset2,cpusetx:/y"};
        for (int k = 0; k < 3; k++) w.procs[0].cgroup.insert(w.procs[0].cgroup.begin() + (long)r.below(w.procs[0].cgroup.size() + 1), co[r.below(6)]);
    }
    // two halves so that each config line stays well below the parser's line limit
    for (int half = 0; half < 2; half++) {
        std::string f;
        for (size_t i = half; i < tags.size(); i += 2) { std::string nm = tags[i].substr(0, tags[i].find(':')); f += "<" + nm + "=%{" + tags[i] + "}>"; }
        CfgSpec s; s.has_format = true; s.format = f; s.has_output = true; s.output = "file:/log/c12"; s.has_logmax = true; s.logmax = "1048575"; s.has_dsmax = true; s.dsmax = "1048575";
        p.ops.push_back(op_setconfig(s.render(r, true)));
        ExecOp e; e.path = "/bin/x"; e.argv = {"x"}; p.ops.push_back(op_exec(e));
    }
    // the whole environment, with the data source limit placed at its length and around it: what fits is reported whole, to the last byte
    if (!w.environ_null && r.chance(1, 5)) {
        size_t total = 0; for (auto &e : w.env) total += e.size() + 1;
        if (total < 300) { w.env.push_back("PAD=" + std::string(300 - total, 'p')); total = 0; for (auto &e : w.env) total += e.size() + 1; }
        long lim = (long)total - 1 + r.range(-1, 5); if (lim < 255) lim = 255; if (lim > 1048575) lim = 1048575;
        CfgSpec s; s.has_format = true; s.format = "<env_all=%{env_all}>"; s.has_output = true; s.output = "file:/log/c12"; s.has_logmax = true; s.logmax = "1048575"; s.has_dsmax = true; s.dsmax = std::to_string(lim);
        p.ops.push_back(op_setconfig(s.render(r, true)));
        ExecOp e; e.path = "/bin/x"; e.argv = {"x"}; p.ops.push_back(op_exec(e));
        p.extra.set("env_all_at_limit", lim - ((long)total - 1));
    }
    // "at the time of the call": the state of a process changes while it lives - it drops privileges, changes directory, loses its parent,
    // detaches from the terminal - and a later exec of the same process has to report the new state
    if (r.chance(1, 2)) {
        World w2 = w; int nchg = (int)r.range(1, 3);
        for (int i = 0; i < nchg; i++) switch (r.below(8)) {
        case 0: std::swap(w2.uid, w2.euid); if (w2.uid == w2.euid) w2.uid = w2.uid ? 0 : 1000; break;
        case 1: std::swap(w2.gid, w2.egid); if (w2.gid == w2.egid) w2.gid = w2.gid ? 0 : 100; break;
        case 2: if (w2.procs.size() >= 3 && w2.procs.back().pid == 1) { w2.procs.erase(w2.procs.begin() + 1); w2.procs[0].ppid = 1; w2.ppid = 1; } break;   // the parent exited: re-parented to init
        case 3: w2.cwd = "/moved/" + gen_token(r, 1, 12, 0); w2.cwd_errno = 0; break;
        case 4: w2.hostname = "renamed-" + gen_token(r, 1, 8, 0); break;
        case 5: w2.tty_state = (w2.tty_state + 1) % 3; break;
        case 6: if (r.chance(1, 2)) { w2.sid = w2.pid; break; }
            // the next calls are made by a vfork() child: a new kernel task (pid, tid) in the same memory, thread-local storage included, no fork handlers run
            if (!w2.procs.empty()) { Proc child = w2.procs[0]; int np = w2.pid + 1 + (int)r.below(50); child.pid = np; child.ppid = w2.pid; w2.procs.insert(w2.procs.begin(), child); w2.ppid = w2.pid; w2.pid = np; w2.tid_kernel = np; }
            break;
        default: if (!w2.environ_null) { if (!w2.env.empty() && r.chance(1, 2)) w2.env.erase(w2.env.begin()); else w2.env.push_back("ADDED_LATER=1"); } break;
        }
        J a = w.to_json(), b = w2.to_json(); Op m; m.op = "Mutate"; m.patch = J::obj();
        for (auto &kv : b.o) { const J *old = a.find(kv.first); if (kv.first != "files" && kv.first != "socks" && (!old || old->dump() != kv.second.dump())) m.patch.set(kv.first, kv.second); }
        if (!m.patch.o.empty()) {
            p.ops.push_back(m);
            std::vector<Op> again; for (auto &o : p.ops) if (o.op == "SetConfig" || o.op == "Exec") again.push_back(o);
            for (auto &o : again) p.ops.push_back(o);
            p.extra.set("state_changes", true);
        }
    }
    return p;
}
static Verdict oracle_c12(const Plan &p, const RunResult &r) {
    for (auto &cv : calls_of(p)) {
        RecJudge j = judge_record(cv, r);
        if (!j.v.violated) continue;
        if (j.v.cls != "record-content") return j.v;
        // name the data source that differs
        std::string got = file_record(r, cv.opi, "/log/c12");
        if (j.exp.cfg.message_format.compare(0, 9, "<env_all=") == 0) { j.v.cls = "datasource-wrong:env_all"; return j.v; }   // values of the environment may contain the delimiters
        for (auto &t : j.exp.records) {
            size_t k = 0; while (k < got.size() && k < t.size() && got[k] == t[k]) k++;
            size_t b = t.rfind('<', k); size_t e = b == std::string::npos ? std::string::npos : t.find('=', b);
            if (b != std::string::npos && e != std::string::npos) { std::string ds = t.substr(b + 1, e - b - 1); return bad("datasource-wrong:" + ds, "data source '" + ds + "': logged " + show(got.substr(b, 80)) + " ; process state says " + show(t.substr(b, 80))); }
        }
        return j.v;
    }
    return ok();
}
static void describe_c12(const Plan &p, const RunResult &r, J &line) {
    (void)r; const World &w = p.world;
    std::string sig = std::string(w.uid == w.euid ? "u=" : "u!") + (w.gid == w.egid ? "g=" : "g!") + (w.uid == w.gid ? "ug=" : "ug!") + "t" + std::to_string(w.tty_state) + (w.pw(w.uid) ? "N" : "n") + (w.pw(w.euid) ? "N" : "n") + (w.gr(w.gid) ? "N" : "n") + (w.gr(w.egid) ? "N" : "n") +
                      (w.login_errno ? "l!" : "l=") + (w.at_secure ? "S" : "s") + (w.environ_null ? "E0" : w.env.empty() ? "Ee" : "En") + (w.cwd_errno ? "c!" : "c=") + "d" + std::to_string(w.procs.size());
    line.set("sig", sig); line.set("nontrivial", true);
    if (p.extra.has("env_all_at_limit")) line.set("p_env_all_at_limit", true);
    if (w.uid != w.euid && w.gid != w.egid && w.uid != w.gid && w.euid != w.egid) line.set("p_all_ids_distinct", true);
    if (!w.pw(w.uid) || !w.gr(w.gid)) line.set("p_id_without_name", true);
    if (w.tty_state == 0) line.set("p_no_tty", true);
    if (w.tty_state == 1) line.set("p_ebadf", true);
    if (w.cwd_errno) line.set("p_deleted_cwd", true);
    if (w.at_secure) line.set("p_secure_exec_mode", true);
    if (p.extra.getb("state_changes")) line.set("p_state_changes_between_calls", true);
    if (w.ppid == 1 || w.ppid == 0) line.set("p_child_of_init", true);
    for (auto &e : w.env) if (e.compare(0, 3, "TZ=") == 0 && e != "TZ=UTC") line.set("p_tz_non_utc", true);
}
static Reg reg_c12({"C12", gen_c12, oracle_c12, nullptr, describe_c12});

// ------------------------------------------------------------------ C08
static std::string c08_value(Rng &r, const std::string &opt, const World &w, bool roundtrip) {
    if (opt == "message_format" || opt == "syslog_ident" ) { std::string v = r.chance(1, 6) ? "" : gen_modelled_format(r, "V", 200); if (opt == "syslog_ident") v = v.substr(0, 60); return v; }
    if (opt == "filter_chain") return gen_chain(r, w, 4);
    if (opt == "output") return gen_output_value(r, w);
    if (opt == "error_logging") { static const char *v[] = {"yes", "no", "Y", "N", "true", "False", "1", "0", "t", "f", "on", "off", "maybe", "", "2", "Yes please"}; return v[r.below(roundtrip ? 12 : 16)]; }
    if (opt == "syslog_facility" || opt == "syslog_level") {
        bool fac = opt == "syslog_facility";
        std::string v = fac ? FAC_NAMES[r.below(20)] : LEV_NAMES[r.below(8)];
        switch (r.below(8)) {
        case 0: v = "LOG_" + v; break;
        case 1: for (auto &c : v) c = (char)tolower(c); break;
        case 2: v = "log_" + v; for (auto &c : v) c = (char)tolower(c); break;
        case 3: v = "Log_" + v.substr(0, 1) + std::string(v.size() > 1 ? v.substr(1) : ""); break;
        case 4: { static const char *g[] = {"", "garbage", "LOG_", "LOCAL8", "INFOO", "WARN", "AUT", "7", "LOG_LOG_INFO", "AUTH PRIV"}; v = g[r.below(10)]; break; }
        case 5: if (!roundtrip) { static const char *tail[] = {"S", "s", "x", "_", "0", "ING", "_X"}; if (r.chance(1, 2)) v = (r.chance(1, 2) ? "LOG_" : "log_") + v; v += tail[r.below(7)]; } break;   // every valid name with something behind it: not a name
        default: break;
        }
        return v;
    }
    // the two length options
    unsigned long long n;
    switch (r.below(8)) {
    case 0: n = 0; break; case 1: n = (unsigned long long)r.range(1, 300); break; case 2: n = (unsigned long long)r.range(250, 2100); break;
    case 3: n = (unsigned long long)r.range(1000000, 1100000); break; case 4: n = 2147483647ULL + r.below(3); break; case 5: n = 4294967295ULL + r.below(4); break;
    case 6: n = r.below(1000000000000000ULL); break; default: n = (unsigned long long)r.range(1, 5000);
    }
    std::string v = std::to_string(n);
    switch (r.below(10)) { case 0: v += "k"; break; case 1: v += "K"; break; case 2: v += "m"; break; case 3: v += "M"; break; case 4: v += r.chance(1, 2) ? " k" : "kb"; break; case 5: if (!roundtrip) v = r.chance(1, 2) ? "abc" : v + "x"; break; default: break; }
    if (r.chance(1, 20) && !roundtrip) v = "";
    if (r.chance(1, 12) && !roundtrip) { static const char *odd[] = {"-1", "+300", "-5k", "+1k", "-2m", " 300", "\t7k", "0x400", "1e3", "٣٠٠", "-0", "+"}; v = odd[r.below(12)]; }
    return v;
}
static Plan gen_c08(uint64_t seed, const std::string &tier) {
    (void)tier;
    Rng r(seed * 1000003 + 108);
    Plan p; p.property = "C08"; p.seed = seed; p.world = gen_world(r);
    if (seed % 4 == 3) p.world.ctype_tr = true;   // what an option value means does not depend on the locale of the program that happens to call exec
    World &w = p.world;
    for (int i = 0; i < 3; i++) w.socks["/run/snoopy-" + std::to_string(i) + ".sock"] = SockNode();
    bool roundtrip = r.chance(1, 3);
    static const char *opts[] = {"message_format", "filter_chain", "output", "error_logging", "syslog_facility", "syslog_level", "syslog_ident", "datasource_message_max_length", "log_message_max_length"};
    std::string f;
    if (r.chance(1, 10)) f += "\xEF\xBB\xBF";
    if (r.chance(1, 3)) f += "; leading comment\n# another = one\n";
    if (r.chance(1, 6)) f += "message_format = before-any-section\n";
    if (r.chance(1, 6)) f += "[other]\noutput = stderr\nmessage_format = wrong-section\n";
    f += r.chance(1, 10) ? "  [snoopy]  \n" : "[snoopy]\n";
    int n = (int)r.range(1, 9);
    for (int i = 0; i < n; i++) {
        std::string opt = opts[r.below(9)];
        if (r.chance(1, 10)) opt = r.chance(1, 2) ? "unknown_option" : "Message_Format";
        std::string v = c08_value(r, opt, w, roundtrip);
        if (!roundtrip && (opt == "message_format" || opt == "syslog_ident") && r.chance(1, 6)) {   // bytes >= 0x80 are text like any other: at the ends of a value, in front of a ';'
            static const char *hi[] = {"\xc2\xbb", "\xc3\xa9", "\xe2\x82\xac", "\xff", "\x80"};
            switch (r.below(4)) { case 0: v = std::string(hi[r.below(5)]) + " " + v; break; case 1: v = v + " " + hi[r.below(5)]; break; case 2: v = v + hi[r.below(5)] + ";tail"; break; default: v = std::string(hi[r.below(5)]) + v + hi[r.below(5)]; }
        }
        if (r.chance(1, 12)) f += std::string(r.chance(1, 2) ? "\xc3\xbc" : "\xe9") + "berfluessig = 1\n";   // an unknown option whose name starts with such a byte is a line of its own, not a continuation
        if (r.chance(1, 8)) f += r.chance(1, 2) ? "\n" : "   \t \n";
        if (r.chance(1, 8)) f += "; " + opt + " = commented-out\n";
        if (r.chance(1, 12)) { static const char *bad[] = {"line without separator\n", "[unterminated section\n", "====\n", "message_format\n", "] stray\n"}; f += bad[r.below(5)]; if (f.find("[unterminated") != std::string::npos) f += "[snoopy]\n"; }
        if (r.chance(1, 8)) {   // a line that just fits the parser's 1024-byte line buffer (1022 characters + newline is the longest whole line); what follows it still counts
            size_t L = 1020 + (size_t)r.below(3);
            if (roundtrip || r.chance(1, 2)) f += (r.chance(1, 2) ? ";" : "#") + std::string(L - 1, '-') + "\n";
            else { std::string head = r.chance(1, 2) ? "message_format = " : "syslog_ident = "; f += head + std::string(L - head.size(), 'm') + "\n"; }
        }
        if (r.chance(1, 10)) {   // an unknown option whose name begins with a known one, and a continuation line that belongs to it (and to nobody else)
            static const char *sfx[] = {"_comment", "_old", "2", "_", "s", "-disabled"};
            std::string known = opts[r.below(9)];
            f += known + sfx[r.below(6)] + " = " + (r.chance(1, 2) ? "x" : c08_value(r, known, w, true)) + "\n";
            if (r.chance(2, 3)) f += (r.chance(1, 2) ? "   " : "\t") + c08_value(r, known, w, true) + "\n";
        }
        std::string sep = r.chance(1, 4) ? "=" : r.chance(1, 4) ? ":" : r.chance(1, 2) ? " = " : "\t=   ";
        if (sep == ":" && (v.empty() || opt == "output")) sep = " = ";
        std::string line = (r.chance(1, 12) ? "  " : "") + opt + sep + quote_if_needed(r, v, false);
        if (r.chance(1, 8)) line += "   ; inline comment";
        if (r.chance(1, 10)) line += "  \t";
        f += line + (r.chance(1, 20) ? "\r\n" : "\n");
        if (r.chance(1, 15) && (opt == "message_format" || opt == "syslog_ident")) f += "   continued-" + gen_token(r, 1, 10, 0) + "\n";
    }
    if (r.chance(1, 8)) f += "[trailer]\nlog_message_max_length = 999\n";
    if (r.chance(1, 10) && !f.empty() && f.back() == '\n') f.pop_back();
    p.ops.push_back(op_setconfig(f));
    Op c; c.op = "CliConf"; c.roundtrip = roundtrip; p.ops.push_back(c);
    if (!roundtrip) { ExecOp e = gen_exec(r, "c08_", 0); p.ops.push_back(op_exec(e)); }
    return p;
}
static bool plain_value(const std::string &v) {
    if (v.empty()) return true;
    if (v[0] == ' ' || v[0] == '\t' || v.back() == ' ' || v.back() == '\t' || v.back() == '\r') return false;
    if ((v[0] == '"' && v.back() == '"') || (v[0] == '\'' && v.back() == '\'')) return false;
    if (v.find(" ;") != std::string::npos || v.find("\t;") != std::string::npos || v[0] == ';') return false;
    return true;
}
static Verdict oracle_c08(const Plan &p, const RunResult &r) {
    World w = p.world; w.render_proc(); apply_setconfig(w, p.ops[0]);
    MCfg m = model_config(w);
    J want = model_conf_report(m);
    for (auto &kv : want.o) {
        const J *got = r.cli_conf.find(kv.first);
        if (!got || got->t != J::STR) return bad("option-missing:" + kv.first, "option " + kv.first + " not reported by the library");
        if (got->s != kv.second.s) {
            if (kv.first == "error_logging" && m.error_logging_ambiguous) continue;
            return bad("option-value:" + kv.first, "option " + kv.first + " reported as '" + show(got->s) + "', documented value is '" + show(kv.second.s) + "'");
        }
    }
    if (p.ops[1].roundtrip) {
        for (auto &kv : r.cli_conf.o) {
            if (kv.second.t != J::STR || !plain_value(kv.second.s)) continue;
            const J *again = r.cli_conf2.find(kv.first);
            if (!again || again->t != J::STR || again->s != kv.second.s) return bad("roundtrip:" + kv.first, "option " + kv.first + " shown as '" + show(kv.second.s) + "' reads back as '" + show(again && again->t == J::STR ? again->s : "<none>") + "'");
        }
        return ok();
    }
    // effect on a logged record
    for (auto &cv : calls_of(p)) { RecJudge j = judge_record(cv, r); if (j.v.violated) { j.v.cls = "effect-" + j.v.cls; return j.v; } }
    return ok();
}
static void describe_c08(const Plan &p, const RunResult &r, J &line) {
    (void)r; World w = p.world; apply_setconfig(w, p.ops[0]);
    MCfg m = model_config(w);
    std::string sig; for (auto &f : m.features) { sig += f + ","; line.set("p_" + f, true); }
    sig += "|" + m.output + "|" + std::to_string(m.dsmax == 255 ? 0 : m.dsmax == 1048575 ? 2 : 1) + std::to_string(m.logmax == 255 ? 0 : m.logmax == 1048575 ? 2 : 1) + "|" + std::to_string(m.facility) + "." + std::to_string(m.level) + (p.ops[1].roundtrip ? "|rt" : "");
    line.set("sig", sig); line.set("nontrivial", m.assigned >= 1);
    if (p.ops[1].roundtrip) line.set("p_roundtrip", true);
    if (p.ops[0].cfg.find("2147483647") != std::string::npos || p.ops[0].cfg.find("429496729") != std::string::npos) line.set("p_number_ge_2_31", true);
}
static Reg reg_c08({"C08", gen_c08, oracle_c08, nullptr, describe_c08});

// ------------------------------------------------------------------ C02
static std::string c02_config(Rng &r, const World &w, J &probes) {
    int g = (int)r.below(10);
    if (g < 3) return gen_known_config(r, w);
    if (g < 5) {  // byte-level mutation of a structured file
        std::string s = gen_known_config(r, w);
        int m = (int)r.range(1, 6);
        for (int i = 0; i < m && !s.empty(); i++) {
            size_t pos = r.below(s.size());
            switch (r.below(6)) {
            case 0: s[pos] = (char)r.range(1, 255); break;
            case 1: s.insert(pos, gen_token(r, 1, 8, 2)); break;
            case 2: s.erase(pos, (size_t)r.range(1, 10)); break;
            case 3: s.insert(pos, "\n"); break;
            case 4: s.insert(pos, r.chance(1, 2) ? "\"" : "'"); break;
            default: s.insert(pos, r.chance(1, 2) ? "%{" : "}"); break;
            }
        }
        return s;
    }
    // boundary-directed
    CfgSpec s; std::string extra;
    switch (r.below(17)) {
    case 16: {   // records around and beyond the sizes stdio and the kernel work in (4096, 8192, 65536, 128 KiB), through every kind of output
        static const long around[] = {4096, 8192, 16384, 65536, 131072, 212992}; long n = around[r.below(6)] + r.range(-40, 40); if (r.chance(1, 4)) n = r.range(3000, 300000);
        static const char *o[] = {"stdout", "stderr", "devtty", "file:/log/big.log", "socket:/run/snoopy-0.sock", "devlog", "devnull"};
        s.has_output = true; s.output = o[r.below(7)]; s.has_dsmax = true; s.dsmax = "1048575"; s.has_logmax = true; s.logmax = "1048575";
        s.has_format = true; s.format = r.chance(1, 2) ? "%{env:LONGPATH}" : "%{env:LONGPATH} %{filename}"; extra = std::string((size_t)n, 'r'); probes.set("p_record_ge_4096", n >= 4096); break; }
    case 0: { size_t n = (size_t)(r.chance(1, 2) ? r.range(95, 105) : r.range(100, 900)); s.has_format = true; s.format = "x%{" + std::string(n, r.chance(1, 2) ? 'T' : ':') + "}y"; probes.set("p_tag_ge_100", n >= 98); break; }
    case 1: { long lim = r.chance(1, 2) ? 255 : r.range(255, 700); long len = lim + r.range(-1, 1); s.has_format = true; s.format = std::string((size_t)len, 'L'); s.has_logmax = true; s.logmax = std::to_string(lim); probes.set("p_msg_eq_limit", len == lim); break; }
    case 2: { static const char *v[] = {":", ":file", "::", "file:", ":/x", "devlog:", "a:", "socket:", "socket:" , "file::x"}; s.has_output = true; s.output = v[r.below(10)]; probes.set("p_output_colon", true); break; }
    case 3: { static const char *v[] = {"x", "ab", "", "LOG", "LOG_", "L_", "abc_", "_", "AUTHPRIVX", "LOG_AUT"}; s.has_facility = true; s.facility = v[r.below(10)]; s.has_level = true; s.level = v[r.below(10)]; probes.set("p_short_syslog_name", true); break; }
    case 4: { static const char *v[] = {"2048m", "2047m", "4095m", "2097152k", "999999999999999999", "18446744073709551616", "99999999999999999999999999", "4294967297", "2147483648", "1048576k"}; s.has_dsmax = true; s.dsmax = v[r.below(10)]; s.has_logmax = true; s.logmax = v[r.below(10)]; probes.set("p_huge_number", true); break; }
    case 5: { size_t n = (size_t)r.range(254, 258); s.has_ident = true; s.ident = r.chance(1, 2) ? std::string(n, 'I') : "%{snoopy_literal:" + std::string(n - 10, 'i') + "}0123456789"; s.has_output = true; s.output = "devlog"; probes.set("p_ident_near_256", true); break; }
    case 6: { size_t n = (size_t)r.range(4090, 4100); extra = std::string(n, 'p'); s.has_output = true; s.output = "file:/log/%{env:LONGPATH}"; probes.set("p_path_near_max", true); break; }
    case 7: { s.has_dsmax = true; s.dsmax = r.chance(1, 2) ? "1048575" : "255"; s.has_logmax = true; s.logmax = r.chance(1, 2) ? "1048575" : "255"; s.has_format = true; s.format = "%{env_all}|%{cmdline}|%{env:LONGPATH}"; extra = std::string((size_t)r.range(200, 300000), 'e'); probes.set("p_limit_1mib", s.dsmax == "1048575"); break; }
    case 8: { size_t n = (size_t)r.range(1018, 1030); std::string line = "message_format = " + std::string(n > 17 ? n - 17 : 1, 'M'); probes.set("p_line_ge_1024", n >= 1024); return "[snoopy]\n" + line + "\noutput = file:/log/x\n" + (r.chance(1, 2) ? std::string(5000, 'Z') + "\n" : ""); }
    case 9: { s.has_chain = true; size_t n = (size_t)r.range(900, 990); s.chain = r.chance(1, 3) ? std::string(n, 'f') : r.chance(1, 2) ? "only_uid:" + std::string(n, '9') : "exclude_spawns_of:" + std::string(n, ',');
        if (r.chance(1, 2)) { static const int nl[] = {99, 100, 101, 128, 255, 256, 300, 990}; size_t k = (size_t)nl[r.below(8)]; s.chain = (r.chance(1, 2) ? "only_uid:0;" : "") + std::string(k, 'N') + (r.chance(3, 4) ? ":" + std::string((size_t)r.range(0, 5), 'a') : "") + (r.chance(1, 2) ? ";noop" : ""); }   // long NAME, with and without an argument
        break; }
    case 10: { s.has_chain = true; static const char *v[] = {"only_uid:", "only_uid:,", "exclude_uid:,,,", "only_uid:abc", "exclude_spawns_of:", "exclude_spawns_of:,", ":", ";", ":;:", "only_uid:-1", "only_uid:99999999999999999999", "only_tty:x"}; s.chain = v[r.below(12)]; break; }
    case 11: { s.has_format = true; static const char *v[] = {"%{", "%{}", "%", "%{:", "%{:}", "%{cgroup}", "%{cgroup:}", "%{datetime:%}", "%{datetime:%Ez%Oy%+}", "%{env:}", "%{env:=}", "%{snoopy_literal:%{uid}}"}; s.format = v[r.below(12)]; break; }
    case 12: { s.has_format = true; s.format = "%{datetime:" + std::string((size_t)r.range(30, 200), r.chance(1, 2) ? 'A' : '%') + "}"; break; }
    case 13: { // error logging switched on while the output itself hits a limit (ident / path / message)
        s.has_errlog = true; s.errlog = "yes"; s.has_output = true;
        switch (r.below(4)) {
        case 0: s.output = "devlog"; s.has_ident = true; s.ident = std::string((size_t)r.range(250, 400), 'I'); break;
        case 1: s.output = "devlog"; s.has_ident = true; s.ident = "%{env:LONGPATH}"; extra = std::string((size_t)r.range(250, 5000), 'e'); break;
        case 2: s.output = "file:/log/%{env:LONGPATH}"; extra = std::string((size_t)r.range(4090, 9000), 'p'); break;
        default: {   // the message itself overflows, with more tags to come; the error record goes through an output that formats its own path or ident
            static const char *o[] = {"devlog", "stderr", "file:/log/err.log", "file:/log/%{username}-%{datetime:%Y}.log", "devtty", "socket:/run/snoopy-0.sock"};
            s.output = o[r.below(6)]; s.has_logmax = true; s.logmax = r.chance(1, 2) ? "255" : std::to_string(r.range(255, 400));
            if (r.chance(1, 2)) { s.has_dsmax = true; s.dsmax = r.chance(1, 2) ? "255" : std::to_string(r.range(255, 5000)); }
            s.has_format = true; s.format = (r.chance(1, 2) ? std::string(300, 'M') : "%{filename} %{cmdline} ") + "%{cmdline} %{filename} %{env:LONGPATH} %{uid}"; if (r.chance(1, 2)) extra = std::string((size_t)r.range(100, 3000), 'e');
            break; }
        }
        probes.set("p_errlog_at_limit", true); break; }
    case 14: { s.has_format = true; s.format = "%{login}|%{username}|%{tty_username}"; probes.set("loginlen", (long)r.range(252, 256)); probes.set("p_login_at_buffer_size", true); break; }
    default: { s.has_format = true; s.format = "%{domain}|%{ipaddr}|%{systemd_unit_name}|%{snoopy_configure_command}|%{rpname}|%{tty_username}|%{login}|%{cgroup:name=systemd}"; }
    }
    std::string f = s.render(r);
    if (!extra.empty()) probes.set("longpath", extra);
    return f;
}
static Plan gen_c02(uint64_t seed, const std::string &tier) {
    (void)tier;
    Rng r(seed * 1000003 + 102);
    Plan p; p.property = "C02"; p.seed = seed; p.world = gen_world(r);
    World &w = p.world;
    for (int i = 0; i < 3; i++) w.socks["/run/snoopy-" + std::to_string(i) + ".sock"] = SockNode();
    J probes = J::obj();
    std::string cfg = c02_config(r, w, probes);
    if (probes.has("loginlen") && !w.environ_null) { w.login_errno = 6; w.env.push_back((r.chance(1, 2) ? "SUDO_USER=" : "LOGNAME=") + std::string((size_t)probes.geti("loginlen"), 'L')); }
    if (probes.has("longpath")) { if (!w.environ_null) w.env.push_back("LONGPATH=" + probes.gets("longpath")); J np = J::obj(); for (auto &kv : probes.o) if (kv.first != "longpath") np.set(kv.first, kv.second); probes = np; }
    { J np = J::obj(); for (auto &kv : probes.o) if (kv.first != "loginlen") np.set(kv.first, kv.second); probes = np; }
    if (r.chance(1, 12)) { w.hostname = r.chance(1, 2) ? "" : std::string((size_t)r.range(60, 70), 'h'); }
    if (r.chance(1, 10) && !w.environ_null) { w.login_errno = 6; w.env.push_back(std::string(r.chance(1, 2) ? "SUDO_USER=" : "LOGNAME=") + std::string((size_t)r.range(250, 260), 'l')); probes.set("p_long_login_fallback", true); }
    if (r.chance(1, 10)) { w.procs[0].cgroup = {"1:name=systemd:/user.slice/user-" + std::string(r.chance(1, 2) ? "12" : "x") + (r.chance(1, 2) ? ".slice" : ""), "garbage", "::", "3:cpu"}; }
    if (r.chance(1, 10)) w.files["/etc/hosts"].content = r.chance(1, 2) ? std::string(3000, 'h') : w.hostname + "." + std::string(1500, 'd') + "\n" + "1.2.3.4 " + w.hostname + ".";
    // the calling thread is not always the main thread with its 8 MiB: threads of runtimes and daemons have stacks of 1 MiB and less, and the
    // buffers the limits permit (1 MiB) must not be taken from there
    bool small_stack = r.chance(1, 30);
    if (small_stack) { cfg = "[snoopy]\nmessage_format = %{cmdline} %{env:HOME} %{filename}\ndatasource_message_max_length = " + std::string(r.chance(1, 2) ? "1048575" : "1m") + "\nlog_message_max_length = 1048575\noutput = file:/log/small-stack.log\n"; probes.set("p_thread_with_1mib_stack", true); }
    p.ops.push_back(op_setconfig(cfg));
    int n = (int)r.range(1, 2);
    Op batch; batch.op = "Batch"; batch.policy = 0; batch.sched_seed = seed; batch.threads.emplace_back();
    for (int i = 0; i < n; i++) {
        int sc = (int)r.below(20); sc = sc < 8 ? 0 : sc < 14 ? 1 : sc < 19 ? 2 : 3;
        ExecOp e = gen_exec(r, "z" + std::to_string(i), sc); gen_outcome(r, e, i == n - 1);
        if (small_stack) { e.success = false; e.ret = -1; if (!e.err) e.err = 2; batch.threads[0].push_back(e); } else p.ops.push_back(op_exec(e));
    }
    if (small_stack) p.ops.push_back(batch);
    p.extra.set("probes", probes);
    return p;
}
Verdict libc_static_state(const RunResult &r);
static Verdict oracle_c02(const Plan &p, const RunResult &r) {
    { Verdict ls = libc_static_state(r); if (ls.violated) return ls; }   // "corrupt the calling process" includes the libc state the caller was working with
    for (auto &cv : calls_of(p)) {
        const ExecObs *o = obs_of(r, cv.opi); if (!o) continue;
        if (o->real_calls < 1) return bad("exec-not-reached", "call #" + std::to_string(cv.opi) + " never handed control to the real exec");
    }
    return ok();
}
static void describe_c02(const Plan &p, const RunResult &r, J &line) {
    (void)r;
    const std::string &c = p.ops[0].cfg;
    std::string cls;
    for (const char *k : {"message_format", "filter_chain", "output", "syslog_facility", "syslog_level", "syslog_ident", "error_logging", "datasource_message_max_length", "log_message_max_length"}) cls.push_back(c.find(k) != std::string::npos ? '1' : '0');
    size_t tags = 0, pos = 0; while ((pos = c.find("%{", pos)) != std::string::npos) { tags++; pos += 2; }
    std::string pr; for (auto &kv : p.extra.at("probes").o) { if (kv.second.b || kv.second.i) { line.set(kv.first, true); pr += kv.first.substr(2, 6); } }
    const World &w = p.world;
    line.set("sig", cls + "|t" + std::to_string(tags < 4 ? tags : 4) + "|" + pr + "|" + (w.environ_null ? "E0" : w.env.size() > 99 ? "EL" : "En") + "t" + std::to_string(w.tty_state) + "|" + std::to_string(c.size() / 400));
    line.set("nontrivial", !c.empty());
    if (w.environ_null) line.set("p_environ_null", true);
}
static Reg reg_c02({"C02", gen_c02, oracle_c02, nullptr, describe_c02});
