// Simulated kernel, exec recorder, residue snapshots, plan interpreter.
#include "core.hpp"
#include "model.hpp"
#include <dlfcn.h>
#include <errno.h>
#include <fcntl.h>
#include <locale.h>
#include <link.h>
#include <signal.h>
#include <stddef.h>
#include <stdio.h>
#include <stdio_ext.h>
#include <stdlib.h>
#include <string.h>
#include <sys/socket.h>
#include <sys/stat.h>
#include <sys/syscall.h>
#include <sys/un.h>
#include <time.h>
#include <unistd.h>

extern "C" {
volatile __thread int t_in_sut = 0;
volatile __thread int t_in_sim = 0;
volatile __thread int t_thr = 0;
long raw_syscall6(long n, long a, long b, long c, long d, long e, long f) {
    long ret;
    register long r10 __asm__("r10") = d;
    register long r8 __asm__("r8") = e;
    register long r9 __asm__("r9") = f;
    __asm__ volatile("syscall" : "=a"(ret) : "a"(n), "D"(a), "S"(b), "d"(c), "r"(r10), "r"(r8), "r"(r9) : "rcx", "r11", "memory");
    return ret;
}
// TSan annotations (present only in the tsan runtime)
void __tsan_write_range(void *, unsigned long) __attribute__((weak));
void AnnotateIgnoreReadsBegin(const char *, int) __attribute__((weak));
void AnnotateIgnoreReadsEnd(const char *, int) __attribute__((weak));
void AnnotateIgnoreWritesBegin(const char *, int) __attribute__((weak));
void AnnotateIgnoreWritesEnd(const char *, int) __attribute__((weak));
int __sanitizer_install_malloc_and_free_hooks(void (*)(const volatile void *, size_t), void (*)(const volatile void *)) __attribute__((weak));
}

SimScope::SimScope() {
    t_in_sim++;
    if (AnnotateIgnoreReadsBegin && t_in_sim == 1) { AnnotateIgnoreReadsBegin(__FILE__, __LINE__); AnnotateIgnoreWritesBegin(__FILE__, __LINE__); }
}
SimScope::~SimScope() {
    if (AnnotateIgnoreReadsEnd && t_in_sim == 1) { AnnotateIgnoreWritesEnd(__FILE__, __LINE__); AnnotateIgnoreReadsEnd(__FILE__, __LINE__); }
    t_in_sim--;
}

Sim G;
void sut_write(void *dst, const void *src, size_t n) {
    // results that the simulated OS stores into caller-supplied buffers are, for the race detector, writes made by the
    // calling library thread: lift the "harness work is invisible" scope around the copy
    if (AnnotateIgnoreReadsEnd && t_in_sim >= 1) { AnnotateIgnoreWritesEnd(__FILE__, __LINE__); AnnotateIgnoreReadsEnd(__FILE__, __LINE__); }
    if (__tsan_write_range && n) __tsan_write_range(dst, n);
    memcpy(dst, src, n);
    if (AnnotateIgnoreReadsBegin && t_in_sim >= 1) { AnnotateIgnoreReadsBegin(__FILE__, __LINE__); AnnotateIgnoreWritesBegin(__FILE__, __LINE__); }
}
uintptr_t g_sut_lo = 0, g_sut_hi = 0;
__thread OpState *t_op = nullptr;
const char *g_variant = "asan-ts";
bool g_thread_safe_build = true;
std::string g_snoopy_version;

// ------------------------------------------------------------------ events, steps, faults
Ev &sim_event(const char *kind, const std::string &s) {
    Ev e; e.seq = G.seq++; e.thr = t_thr; e.opi = t_op ? t_op->opi : -1; e.k = kind; e.s = s;
    G.hist.push_back(std::move(e));
    return G.hist.back();
}
void sim_step() {
    G.steps++; G.w.clock_us += G.w.clock_step_us;
    if (t_op && t_op->obs) { t_op->obs->steps++; if (t_op->after_exec) t_op->obs->steps_after_exec++; }
    if (G.steps > G.step_cap) sim_abort("hang", "step cap exceeded (" + std::to_string(G.step_cap) + " intercepted calls)");
}
bool sim_fault(const char *kind, Fault &out) {
    if (!t_op || !t_op->op) return false;
    int n = t_op->kind_count[kind]++;
    for (auto &f : t_op->op->faults)
        if ((f.nth == n || (f.sticky && n > f.nth)) && f.kind == kind) {
            out = f; if (t_op->obs) t_op->obs->fired.push_back(f);
            G.counters[std::string("fault:") + kind]++;
            return true;
        }
    return false;
}

void sim_abort(const char *cls, const std::string &detail) {
    if (G.abort_class.empty()) { G.abort_class = cls; G.abort_detail = detail; }
    extern void sched_abort_park() __attribute__((noreturn));
    if (G.multi) sched_abort_park();
    if (G.run_jmp_armed) { t_in_sut = 0; t_in_sim = 0; longjmp(G.run_jmp, 1); }
    dprintf(2, "sim_abort outside a run: %s %s\n", cls, detail.c_str());
    _exit(3);
}

// ------------------------------------------------------------------ files
static std::string dirname_of(const std::string &p) {
    size_t k = p.rfind('/');
    if (k == std::string::npos) return ".";
    if (k == 0) return "/";
    return p.substr(0, k);
}

static OpenDesc &new_desc(int kind) {
    int fd = G.next_fd;
    while (G.fds.count(fd)) fd++;
    // standard descriptors that are closed in this process are handed out first (lowest free number)
    if (G.w.stdout_kind == 3) { if (!G.fds.count(2)) fd = 2; if (!G.fds.count(1)) fd = 1; }
    if (G.w.tty_state == 1 && !G.fds.count(0)) fd = 0;
    OpenDesc &d = G.fds[fd];
    d.fd = fd; d.id = G.next_descid++; d.kind = kind; d.opi = t_op ? t_op->opi : -1; d.thr = t_thr;
    return d;
}

int k_open(const char *path, long flags, int mode) {
    (void)mode;
    sched_point(SP_IO); sim_step();
    std::string p = path ? path : "";
    Fault f; bool faulted = sim_fault("open", f);
    { Ev &e = sim_event("open", p); e.a = flags; }
    size_t ei = G.hist.size() - 1;
    auto fail = [&](int err, bool fa) { G.hist[ei].ret = -1; G.hist[ei].err = err; if (fa) G.hist[ei].mark |= MARK_FAULT; return -err; };
    if (faulted && f.err) return fail(f.err, true);
    if (p.empty()) return fail(ENOENT, false);
    if (p.size() >= 4096) return fail(ENAMETOOLONG, false);
    int acc = flags & O_ACCMODE;
    auto it = G.w.files.find(p);
    if (it == G.w.files.end()) {
        if (!(flags & O_CREAT)) return fail(ENOENT, false);
        auto par = G.w.files.find(dirname_of(p));
        if (par == G.w.files.end()) return fail(ENOENT, false);
        if (par->second.kind != 1) return fail(ENOTDIR, false);
        if (par->second.open_errno) return fail(par->second.open_errno, false);
        FileNode n; n.kind = 0; n.uid = G.w.euid;
        it = G.w.files.emplace(p, n).first;
        G.counters["file-created"]++;
    } else {
        if ((flags & O_CREAT) && (flags & O_EXCL)) return fail(EEXIST, false);
    }
    FileNode &n = it->second;
    if (n.open_errno) return fail(n.open_errno, false);
    if (n.kind == 1 && acc != O_RDONLY) return fail(EISDIR, false);
    if (n.kind == 3 && !G.w.has_ctty) return fail(ENXIO, false);
    if ((flags & O_TRUNC) && acc != O_RDONLY && n.kind == 0) {
        if (!n.content.empty()) G.counters["truncated-nonempty"]++;
        if (G.w.disk_free >= 0) G.w.disk_free += (long)n.content.size();
        n.content.clear();
    }
    OpenDesc &d = new_desc(0);
    d.path = p; d.flags = flags; d.off = 0;
    G.hist[ei].ret = d.fd; G.hist[ei].c = d.id;
    return d.fd;
}

long k_read(int fd, void *buf, size_t n) {
    sched_point(SP_IO); sim_step();
    auto it = G.fds.find(fd);
    Fault f; bool faulted = sim_fault("read", f);
    { Ev &e = sim_event("read", it == G.fds.end() ? "" : it->second.path); e.a = it == G.fds.end() ? -1 : it->second.id; e.b = (long)n; }
    size_t ei = G.hist.size() - 1;
    auto done = [&](long r, int err, bool fa) { G.hist[ei].ret = r; G.hist[ei].err = err; if (fa) G.hist[ei].mark |= MARK_FAULT; return err ? -(long)err : r; };
    if (it == G.fds.end()) return done(-1, EBADF, false);
    OpenDesc &d = it->second;
    if (faulted && f.err) return done(-1, f.err, true);
    if (faulted && f.special == 2) return done(0, 0, true);
    if (d.kind != 0) return done(-1, EINVAL, false);
    if ((d.flags & O_ACCMODE) == O_WRONLY) return done(-1, EBADF, false);
    auto nt = G.w.files.find(d.path);
    if (nt == G.w.files.end()) return done(0, 0, false);
    FileNode &node = nt->second;
    if (node.kind == 1) return done(-1, EISDIR, false);
    if (node.kind != 0) return done(0, 0, false);
    long avail = (long)node.content.size() - d.off;
    if (avail <= 0) return done(0, 0, false);
    size_t take = n < (size_t)avail ? n : (size_t)avail;
    if (faulted && f.special == 1 && take > 1) take = take / 2;
    sut_write(buf, node.content.data() + d.off, take);
    d.off += (long)take;
    return done((long)take, 0, faulted);
}

long k_write(int fd, const void *buf, size_t n) {
    auto it = G.fds.find(fd);
    // stdout/stderr are shared streams: glibc holds the FILE lock around this callback, and a thread parked here
    // would make every other thread block on a lock the scheduler cannot see. No preemption inside such a write.
    if (!(fd <= 2 || (it != G.fds.end() && it->second.kind >= 2))) sched_point(SP_IO);
    it = G.fds.find(fd);   // the table may have changed while this thread was parked
    sim_step();
    if (it != G.fds.end() && it->second.kind == 1) {  // write() on a socket == send(flags 0), already a scheduling point
        return k_send(fd, buf, n, 0);
    }
    Fault f; bool faulted = sim_fault("write", f);
    { Ev &e = sim_event("write", it == G.fds.end() ? "" : it->second.path); e.a = it == G.fds.end() ? -1 : it->second.id; e.b = (long)n; e.c = it == G.fds.end() ? 0 : it->second.flags; }
    size_t ei = G.hist.size() - 1;
    auto done = [&](long r, int err, bool fa) { G.hist[ei].ret = r; G.hist[ei].err = err; if (fa) G.hist[ei].mark |= MARK_FAULT; return err ? -(long)err : r; };
    if (it == G.fds.end()) return done(-1, EBADF, false);
    OpenDesc &d = it->second;
    if (faulted && f.err) return done(-1, f.err, true);
    if (faulted && f.special == 1 && n > 1) n = n / 2;
    if (d.kind == 2) { G.w.stdout_bytes.append((const char *)buf, n); G.hist[ei].data.assign((const char *)buf, n); return done((long)n, 0, faulted); }
    if (d.kind == 3) { G.w.stderr_bytes.append((const char *)buf, n); G.hist[ei].data.assign((const char *)buf, n); return done((long)n, 0, faulted); }
    if ((d.flags & O_ACCMODE) == O_RDONLY) return done(-1, EBADF, false);
    auto nt = G.w.files.find(d.path);
    if (nt == G.w.files.end()) return done(-1, EIO, false);
    FileNode &node = nt->second;
    if (node.kind == 2) { G.hist[ei].data.assign((const char *)buf, n); return done((long)n, 0, faulted); }
    if (node.kind == 3) { G.w.tty_bytes.append((const char *)buf, n); G.hist[ei].data.assign((const char *)buf, n); return done((long)n, 0, faulted); }
    if (node.kind == 4) {
        // a FIFO with a slow reader: `fifo_free` bytes of room right now. A blocking write completes in full once the reader
        // has made room; a non-blocking one (O_NONBLOCK) gets EAGAIN (atomic writes up to PIPE_BUF) or a partial count.
        if ((d.flags & O_NONBLOCK) && node.fifo_free >= 0 && (long)n > node.fifo_free) {
            G.counters["fifo-nonblocking-shortfall"]++;
            if (n <= 4096 || node.fifo_free == 0) return done(-1, EAGAIN, false);
            n = (size_t)node.fifo_free;
        }
        if (node.fifo_free >= 0) node.fifo_free = (long)n > node.fifo_free ? 0 : node.fifo_free - (long)n;
        node.content.append((const char *)buf, n); G.hist[ei].data.assign((const char *)buf, n);
        return done((long)n, 0, faulted);
    }
    if (d.flags & O_APPEND) d.off = (long)node.content.size();
    if (G.w.fsize_limit >= 0 && d.off + (long)n > G.w.fsize_limit) {   // the process's file size limit (setrlimit RLIMIT_FSIZE, ulimit -f)
        if (d.off >= G.w.fsize_limit) { G.hist[ei].mark |= MARK_SIGXFSZ; G.counters["sigxfsz"]++; return done(-1, EFBIG, false); }
        n = (size_t)(G.w.fsize_limit - d.off); G.counters["fsize-partial"]++;
    }
    long growth = d.off + (long)n - (long)node.content.size();
    if (growth < 0) growth = 0;
    if (G.w.disk_free >= 0 && growth > G.w.disk_free) {
        long allowed = (long)n - (growth - G.w.disk_free);
        if (allowed <= 0) { G.counters["enospc"]++; return done(-1, ENOSPC, false); }
        n = (size_t)allowed; growth = G.w.disk_free; G.counters["enospc-partial"]++;
    }
    if (G.w.disk_free >= 0) G.w.disk_free -= growth;
    if ((size_t)d.off > node.content.size()) node.content.resize((size_t)d.off, '\0');
    if ((size_t)d.off + n > node.content.size()) node.content.resize((size_t)d.off + n);
    memcpy(&node.content[(size_t)d.off], buf, n);
    d.off += (long)n;
    G.hist[ei].data.assign((const char *)buf, n);
    return done((long)n, 0, faulted);
}

long k_lseek(int fd, long off, int whence) {
    sim_step();
    auto it = G.fds.find(fd);
    { Ev &e = sim_event("lseek", it == G.fds.end() ? "" : it->second.path); e.a = it == G.fds.end() ? -1 : it->second.id; e.b = off; e.c = whence; }
    size_t ei = G.hist.size() - 1;
    if (it == G.fds.end()) { G.hist[ei].ret = -1; G.hist[ei].err = EBADF; return -EBADF; }
    OpenDesc &d = it->second;
    if (d.kind != 0) { G.hist[ei].ret = -1; G.hist[ei].err = ESPIPE; return -ESPIPE; }
    auto nt = G.w.files.find(d.path);
    long size = nt == G.w.files.end() ? 0 : (long)nt->second.content.size();
    if (nt != G.w.files.end() && nt->second.kind >= 2) { G.hist[ei].ret = 0; return 0; }
    long base = whence == SEEK_SET ? 0 : whence == SEEK_CUR ? d.off : size;
    long no = base + off;
    if (no < 0) { G.hist[ei].ret = -1; G.hist[ei].err = EINVAL; return -EINVAL; }
    d.off = no; G.hist[ei].ret = no;
    return no;
}

static std::map<int, void *> g_stdio_bufs;

extern bool g_sched_hint_close;
int k_close(int fd) {
    g_sched_hint_close = t_in_sut != 0; sched_point(SP_IO); g_sched_hint_close = false; sim_step();
    auto it = G.fds.find(fd);
    Fault f; bool faulted = sim_fault("close", f);
    { Ev &e = sim_event("close", it == G.fds.end() ? "" : it->second.path); e.a = it == G.fds.end() ? -1 : it->second.id; }
    size_t ei = G.hist.size() - 1;
    if (it == G.fds.end()) { G.hist[ei].ret = -1; G.hist[ei].err = EBADF; return -EBADF; }
    {   // the last descriptor of an open file description drops its advisory lock
        auto fl = G.flocks.find(it->second.path);
        if (fl != G.flocks.end() && fl->second.erase(it->second.id)) sched_wake_all(&fl->second);
    }
    G.fds.erase(it);
    if (faulted && f.err) { G.hist[ei].ret = -1; G.hist[ei].err = f.err; G.hist[ei].mark |= MARK_FAULT; return -f.err; }
    return 0;
}

// flock(2): the lock belongs to the open file description, so a descriptor inherited over fork() keeps it alive in the child
int k_flock(int fd, int op) {
    sched_point(SP_IO); sim_step();
    auto it = G.fds.find(fd);
    Fault f; bool faulted = sim_fault("flock", f);
    { Ev &e = sim_event("flock", it == G.fds.end() ? "" : it->second.path); e.a = it == G.fds.end() ? -1 : it->second.id; e.c = op; }
    size_t ei = G.hist.size() - 1;
    if (it == G.fds.end()) { G.hist[ei].ret = -1; G.hist[ei].err = EBADF; return -EBADF; }
    if (faulted && f.err) { G.hist[ei].ret = -1; G.hist[ei].err = f.err; G.hist[ei].mark |= MARK_FAULT; return -f.err; }
    if (it->second.kind != 0) return 0;
    const std::string path = it->second.path; const int me = it->second.id;
    std::map<int, int> &locks = G.flocks[path];
    if (op & 8) { if (locks.erase(me)) sched_wake_all(&locks); return 0; }
    const int want = (op & 2) ? 2 : 1;
    if (!(op & 4)) { G.hist[ei].mark |= MARK_BLOCKS; G.counters["would-block"]++; }   // may wait for another process for as long as that one likes
    for (;;) {
        bool conflict = false; int holder = -1;
        for (auto &l : locks) if (l.first != me && (want == 2 || l.second == 2)) { conflict = true; holder = l.first; }
        if (!conflict) break;
        if (op & 4) { G.hist[ei].ret = -1; G.hist[ei].err = EWOULDBLOCK; return -EWOULDBLOCK; }
        int holder_fd = -1; for (auto &d : G.fds) if (d.second.id == holder) holder_fd = d.first;
        sched_block_on(&locks, "flock on " + path + " waits for the lock held through descriptor " + std::to_string(holder_fd) + " (open file description " + std::to_string(holder) + ")");
    }
    locks[me] = want;
    return 0;
}

// ---- stdio on top of the simulated kernel: glibc's real stdio runs on cookie streams
static std::map<FILE *, int> g_stream_fd;      // fileno() of the simulated streams
static ssize_t ck_read(void *c, char *buf, size_t n) {
    SimScope s; long r = k_read((int)(intptr_t)c, buf, n);
    if (r < 0) { errno = (int)-r; return -1; }
    return r;
}
static ssize_t ck_write(void *c, const char *buf, size_t n) {
    SimScope s;
    // same loop as glibc's _IO_new_file_write: retry short writes, stop at the first error
    size_t done = 0;
    while (done < n) {
        long r = k_write((int)(intptr_t)c, buf + done, n - done);
        if (r < 0) { errno = (int)-r; break; }
        if (r == 0) break;
        done += (size_t)r;
    }
    return (ssize_t)done;
}
static int ck_seek(void *c, off64_t *off, int whence) {
    SimScope s; long r = k_lseek((int)(intptr_t)c, (long)*off, whence);
    if (r < 0) { errno = (int)-r; return -1; }
    *off = r; return 0;
}
static int ck_close(void *c) {
    SimScope s; int fd = (int)(intptr_t)c;
    for (auto it = g_stream_fd.begin(); it != g_stream_fd.end();) { if (it->second == fd) it = g_stream_fd.erase(it); else ++it; }
    int r = k_close(fd);
    auto it = g_stdio_bufs.find(fd);
    if (it != g_stdio_bufs.end()) { free(it->second); g_stdio_bufs.erase(it); }
    if (r < 0) { errno = -r; return -1; }
    return 0;
}
int k_fileno(FILE *f) { auto it = g_stream_fd.find(f); return it == g_stream_fd.end() ? -1 : it->second; }
static FILE *cookie_stream(int fd, const char *mode, int bufmode, size_t bufsize) {
    cookie_io_functions_t fn = {ck_read, ck_write, ck_seek, ck_close};
    FILE *f = fopencookie((void *)(intptr_t)fd, mode, fn);
    if (!f) return nullptr;
    for (auto it = g_stream_fd.begin(); it != g_stream_fd.end();) { if (it->second == fd) it = g_stream_fd.erase(it); else ++it; }
    g_stream_fd[f] = fd;
    if (bufmode == _IONBF) setvbuf(f, nullptr, _IONBF, 0);
    else { void *b = malloc(bufsize); g_stdio_bufs[fd] = b; setvbuf(f, (char *)b, bufmode, bufsize); }
    return f;
}
static long mode_flags(const char *mode) {
    long fl = 0;
    switch (mode[0]) {
    case 'r': fl = O_RDONLY; break;
    case 'w': fl = O_WRONLY | O_CREAT | O_TRUNC; break;
    case 'a': fl = O_WRONLY | O_CREAT | O_APPEND; break;
    default: return -1;
    }
    for (const char *p = mode + 1; *p; p++) {
        if (*p == '+') fl = (fl & ~O_ACCMODE) | O_RDWR;
        else if (*p == 'e') fl |= O_CLOEXEC;
        else if (*p == 'x') fl |= O_EXCL;
    }
    return fl;
}
FILE *k_fopen(const char *path, const char *mode) {
    long fl = mode_flags(mode);
    if (fl < 0) { errno = EINVAL; return nullptr; }
    int fd = k_open(path, fl, 0666);
    if (fd < 0) { errno = -fd; return nullptr; }
    char m[8]; size_t k = 0;
    for (const char *p = mode; *p && k < 6; p++) if (*p == 'r' || *p == 'w' || *p == 'a' || *p == '+') m[k++] = *p;
    m[k] = 0;
    FILE *f = cookie_stream(fd, m, _IOFBF, 4096);
    if (!f) { k_close(fd); errno = ENOMEM; return nullptr; }
    return f;
}
FILE *k_fdopen(int fd, const char *mode) {
    if (!G.fds.count(fd)) { errno = EBADF; return nullptr; }
    return cookie_stream(fd, mode, _IOFBF, 4096);
}

// ------------------------------------------------------------------ sockets
int k_socket(int domain, int type, int proto) {
    (void)proto;
    sched_point(SP_IO); sim_step();
    Fault f; bool faulted = sim_fault("socket", f);
    { Ev &e = sim_event("socket"); e.a = domain; e.b = type; }
    size_t ei = G.hist.size() - 1;
    auto fail = [&](int err, bool fa) { G.hist[ei].ret = -1; G.hist[ei].err = err; if (fa) G.hist[ei].mark |= MARK_FAULT; return -err; };
    if (faulted && f.err) return fail(f.err, true);
    if (domain != AF_UNIX) return fail(EAFNOSUPPORT, false);
    OpenDesc &d = new_desc(1);
    d.sock_type = type & 0xf; d.nonblock = (type & SOCK_NONBLOCK) != 0; d.cloexec = (type & SOCK_CLOEXEC) != 0;
    d.path = "<socket>";
    G.hist[ei].ret = d.fd; G.hist[ei].c = d.id;
    return d.fd;
}
int k_connect(int fd, const void *addr, unsigned len) {
    sched_point(SP_IO); sim_step();
    std::string path;
    const struct sockaddr_un *un = (const struct sockaddr_un *)addr;
    if (addr && len > offsetof(struct sockaddr_un, sun_path)) {
        size_t m = len - offsetof(struct sockaddr_un, sun_path);
        if (m > sizeof(un->sun_path)) m = sizeof(un->sun_path);
        path.assign(un->sun_path, strnlen(un->sun_path, m));
    }
    Fault f; bool faulted = sim_fault("connect", f);
    auto it = G.fds.find(fd);
    { Ev &e = sim_event("connect", path); e.a = it == G.fds.end() ? -1 : it->second.id; e.b = len; }
    size_t ei = G.hist.size() - 1;
    auto fail = [&](int err, bool fa) { G.hist[ei].ret = -1; G.hist[ei].err = err; if (fa) G.hist[ei].mark |= MARK_FAULT; return -err; };
    if (it == G.fds.end()) return fail(EBADF, false);
    if (it->second.kind != 1) return fail(ENOTSOCK, false);
    if (faulted && f.err) return fail(f.err, true);
    if (!addr || un->sun_family != AF_UNIX) return fail(EINVAL, false);
    auto st = G.w.socks.find(path);
    if (st == G.w.socks.end()) return fail(G.w.files.count(path) ? ECONNREFUSED : ENOENT, false);
    SockNode &n = st->second;
    if (n.state == 2) return fail(EACCES, false);
    if (n.state == 1) return fail(ECONNREFUSED, false);
    bool want_stream = it->second.sock_type != SOCK_DGRAM;
    if ((n.state == 3) != want_stream) return fail(EPROTOTYPE, false);
    it->second.connected = true; it->second.peer = path;
    return 0;
}
long k_send(int fd, const void *buf, size_t n, int flags) {
    sched_point(SP_IO); sim_step();
    auto it = G.fds.find(fd);
    Fault f; bool faulted = sim_fault("send", f);
    { Ev &e = sim_event("send", it == G.fds.end() ? "" : it->second.peer); e.a = it == G.fds.end() ? -1 : it->second.id; e.b = (long)n; e.c = flags; }
    size_t ei = G.hist.size() - 1;
    auto fail = [&](int err, bool fa) { G.hist[ei].ret = -1; G.hist[ei].err = err; if (fa) G.hist[ei].mark |= MARK_FAULT; return -(long)err; };
    if (it == G.fds.end()) return fail(EBADF, false);
    OpenDesc &d = it->second;
    if (d.kind != 1) return fail(ENOTSOCK, false);
    if (faulted && f.err) {
        // EPIPE raises SIGPIPE only on connection-oriented sockets written without MSG_NOSIGNAL (probed: never for AF_UNIX datagrams)
        if (f.err == EPIPE && d.sock_type != SOCK_DGRAM && !(flags & MSG_NOSIGNAL) && !G.sigpipe_ignored) G.hist[ei].mark |= MARK_SIGPIPE;
        return fail(f.err, true);
    }
    if (!d.connected) return fail(d.sock_type == SOCK_DGRAM ? EDESTADDRREQ : ENOTCONN, false);
    auto st = G.w.socks.find(d.peer);
    if (st == G.w.socks.end()) return fail(ECONNREFUSED, false);
    SockNode &node = st->second;
    if (n > 200000) return fail(EMSGSIZE, false);
    if (node.queued + (int)node.received.size() >= node.capacity) {
        G.counters["queue-full"]++;
        if (!(d.nonblock || (flags & MSG_DONTWAIT))) { G.hist[ei].mark |= MARK_BLOCKS; G.counters["would-block"]++; }
        else G.counters["eagain-seen"]++;
        return fail(EAGAIN, false);
    }
    node.received.emplace_back((const char *)buf, n);
    G.hist[ei].data.assign((const char *)buf, n);
    G.hist[ei].ret = (long)n;
    return (long)n;
}

// ------------------------------------------------------------------ heap attribution (ASan hooks)
#define HT_SIZE (1u << 16)
static struct { const volatile void *p; size_t n; } g_ht[HT_SIZE];
static long g_live_allocs, g_live_bytes;
static volatile int g_hooks_on = 0;
static void ht_insert(const volatile void *p, size_t n) {
    unsigned h = (unsigned)(((uintptr_t)p >> 4) * 2654435761u) & (HT_SIZE - 1);
    for (unsigned k = 0; k < HT_SIZE; k++) {
        unsigned i = (h + k) & (HT_SIZE - 1);
        if (!g_ht[i].p || g_ht[i].p == (void *)1) { g_ht[i].p = p; g_ht[i].n = n; g_live_allocs++; g_live_bytes += (long)n; return; }
    }
}
static void ht_remove(const volatile void *p) {
    unsigned h = (unsigned)(((uintptr_t)p >> 4) * 2654435761u) & (HT_SIZE - 1);
    for (unsigned k = 0; k < HT_SIZE; k++) {
        unsigned i = (h + k) & (HT_SIZE - 1);
        if (!g_ht[i].p) return;
        if (g_ht[i].p == p) { g_ht[i].p = (void *)1; g_live_allocs--; g_live_bytes -= (long)g_ht[i].n; return; }
    }
}
static void hook_malloc(const volatile void *p, size_t n) { if (g_hooks_on && t_in_sut && !t_in_sim && p) { ht_insert(p, n); if (t_op && t_op->after_exec && t_op->obs) t_op->obs->heap_ops_after_exec++; } }
static void hook_free(const volatile void *p) { if (g_hooks_on && p && t_in_sut && !t_in_sim && t_op && t_op->after_exec && t_op->obs) t_op->obs->heap_ops_after_exec++; if (g_hooks_on && p && g_live_allocs) ht_remove(p); }
void heap_reset() { memset(g_ht, 0, sizeof g_ht); g_live_allocs = g_live_bytes = 0; }
void heap_counts(long &a, long &b) { a = g_live_allocs; b = g_live_bytes; }

// ------------------------------------------------------------------ residue snapshots
extern char **environ;
static FILE *g_sim_stdout, *g_sim_stderr, *g_saved_stdout, *g_saved_stderr;
// Is the lock of a stdio stream held (flockfile without funlockfile)? The owner cannot find out with ftrylockfile - the lock is recursive -,
// so the lock object of glibc is read directly: { int lock; int cnt; void *owner; }. Checked against a stream of our own first; if the layout
// is not the expected one the question is answered with "no".
static bool stream_lock_held(FILE *f) {
    static int layout_ok = -1;
    auto peek = [](FILE *x) -> bool { const int *l = (const int *)x->_lock; void *const *own = (void *const *)((const char *)x->_lock + 8); return l && (l[1] != 0 || *own != nullptr); };
    if (layout_ok < 0) {
        FILE *t = fmemopen(nullptr, 16, "w");
        if (!t) layout_ok = 0;
        else { bool a = peek(t); flockfile(t); bool b = peek(t); funlockfile(t); bool c = peek(t); layout_ok = (!a && b && !c) ? 1 : 0; fclose(t); }
    }
    if (layout_ok != 1 || !f) return false;
    return peek(f);
}
Snap take_snapshot() {
    SimScope sc;
    Snap s;
    // every open simulated descriptor, the standard ones included (a process may run with 0 closed, and the library may open or close them);
    // 0-2 also by the identity of what they refer to
    for (auto &p : G.fds) { s.sim_fds.push_back(p.first); if (p.first <= 2) s.sim_fds.push_back(1000000 + p.second.id); }
    // real descriptors, via raw syscalls so that nothing is intercepted or allocated
    long dfd = raw_syscall6(SYS_openat, AT_FDCWD, (long)"/proc/self/fd", O_RDONLY | O_DIRECTORY, 0, 0, 0);
    if (dfd >= 0) {
        char buf[4096]; std::vector<int> v;
        for (;;) {
            long n = raw_syscall6(SYS_getdents64, dfd, (long)buf, sizeof buf, 0, 0, 0);
            if (n <= 0) break;
            for (long off = 0; off < n;) {
                struct D { uint64_t ino; int64_t o; unsigned short reclen; unsigned char type; char name[1]; } *d = (D *)(buf + off);
                if (d->name[0] != '.') { int fd = atoi(d->name); if (fd != dfd) v.push_back(fd); }
                off += d->reclen;
            }
        }
        raw_syscall6(SYS_close, dfd, 0, 0, 0, 0, 0);
        for (size_t i = 0; i < v.size(); i++) for (size_t j = i + 1; j < v.size(); j++) if (v[j] < v[i]) std::swap(v[i], v[j]);
        for (int fd : v) { s.real_fds += std::to_string(fd); s.real_fds += ','; }
    }
    heap_counts(s.lib_live_allocs, s.lib_live_bytes);
    uint64_t h = 1469598103934665603ULL;
    if (environ) for (char **e = environ; *e; e++) { h = fnv(*e, h); h = fnv("\n", h); } else h = 7;
    s.env_sum = h;
    char cw[4096]; long r = raw_syscall6(SYS_getcwd, (long)cw, sizeof cw, 0, 0, 0, 0);
    s.cwd = r > 0 ? cw : "?";
    unsigned um = (unsigned)raw_syscall6(SYS_umask, 022, 0, 0, 0, 0, 0); raw_syscall6(SYS_umask, um, 0, 0, 0, 0, 0);
    s.umask_v = um;
    { const char *l = setlocale(LC_ALL, nullptr); s.locale = l ? l : "?"; }
    s.stream_locks = (stream_lock_held(g_sim_stdout) ? 1 : 0) | (stream_lock_held(g_sim_stderr) ? 2 : 0);
    uint64_t sh = 1469598103934665603ULL;
    for (int sig = 1; sig < 65; sig++) {
        if (sig == SIGKILL || sig == SIGSTOP || sig == 32 || sig == 33) continue;
        struct sigaction sa; memset(&sa, 0, sizeof sa);
        if (sigaction(sig, nullptr, &sa) == 0) {
            char b[64]; snprintf(b, sizeof b, "%d:%lx:%x;", sig, (unsigned long)(uintptr_t)sa.sa_handler, (unsigned)(sa.sa_flags & ~0x04000000));
            sh = fnv(b, sh);
        }
    }
    sigset_t cur; sigemptyset(&cur); pthread_sigmask(SIG_SETMASK, nullptr, &cur);
    for (int sig = 1; sig < 65; sig++) if (sigismember(&cur, sig) == 1) { char b[16]; snprintf(b, sizeof b, "m%d;", sig); sh = fnv(b, sh); }
    s.sig_sum = sh;
    return s;
}

// ------------------------------------------------------------------ pristine library image
struct Seg { char *addr; size_t len; std::string copy; };
static std::vector<Seg> g_segs;
static int phdr_cb(struct dl_phdr_info *info, size_t, void *) {
    if (!info->dlpi_name || !strstr(info->dlpi_name, "libsnoopy.so")) return 0;
    uintptr_t rs = 0, re = 0;
    for (int i = 0; i < info->dlpi_phnum; i++)
        if (info->dlpi_phdr[i].p_type == PT_GNU_RELRO) { rs = info->dlpi_addr + info->dlpi_phdr[i].p_vaddr; re = rs + info->dlpi_phdr[i].p_memsz; re = (re + 4095) & ~(uintptr_t)4095; }
    for (int i = 0; i < info->dlpi_phnum; i++) {
        const ElfW(Phdr) &ph = info->dlpi_phdr[i];
        if (ph.p_type == PT_LOAD && (ph.p_flags & PF_X)) { g_sut_lo = info->dlpi_addr + ph.p_vaddr; g_sut_hi = g_sut_lo + ph.p_memsz; }
        if (ph.p_type != PT_LOAD || !(ph.p_flags & PF_W)) continue;
        uintptr_t a = info->dlpi_addr + ph.p_vaddr, e = a + ph.p_memsz;
        if (rs && a < re && rs <= a) a = re;           // skip the read-only-after-relocation part
        if (a >= e) continue;
        Seg s; s.addr = (char *)a; s.len = e - a; g_segs.push_back(s);
    }
    return 0;
}
static void plain_copy(volatile char *dst, const volatile char *src, size_t n) { for (size_t i = 0; i < n; i++) dst[i] = src[i]; }
// thread-local storage of the library (static __thread variables) of the CALLING thread: back to its initialisation image
static int tls_cb(struct dl_phdr_info *info, size_t, void *) {
    if (!info->dlpi_name || !strstr(info->dlpi_name, "libsnoopy.so") || !info->dlpi_tls_data) return 0;
    for (int i = 0; i < info->dlpi_phnum; i++) {
        const ElfW(Phdr) &ph = info->dlpi_phdr[i];
        if (ph.p_type != PT_TLS) continue;
        volatile char *blk = (volatile char *)info->dlpi_tls_data;
        plain_copy(blk, (const volatile char *)(info->dlpi_addr + ph.p_vaddr), ph.p_filesz);
        for (size_t k = ph.p_filesz; k < ph.p_memsz; k++) blk[k] = 0;
    }
    return 0;
}
static void lib_state_capture() {
    dl_iterate_phdr(phdr_cb, nullptr);
    for (auto &s : g_segs) { s.copy.resize(s.len); plain_copy(&s.copy[0], s.addr, s.len); }
}
void lib_state_restore() { for (auto &s : g_segs) plain_copy(s.addr, s.copy.data(), s.len); dl_iterate_phdr(tls_cb, nullptr); }

// ------------------------------------------------------------------ exec recorder
typedef int (*execv_t)(const char *, char *const *);
typedef int (*execve_t)(const char *, char *const *, char *const *);
static execv_t p_execv; static execve_t p_execve;
static void (*p_cli_init)(); static void (*p_cli_exit)();
static char *(*p_optval)(const char *);
static int g_probe_seen = 0;


static bool vec_equal(char *const *v, const std::vector<std::string> &snap, bool snap_null, bool hidden, std::string &why, const char *what) {
    if (snap_null) { if (v) { why = std::string(what) + " was NULL, non-NULL handed over"; return false; } return true; }
    if (!v) { why = std::string(what) + " handed over as NULL"; return false; }
    if (hidden) { if (v[0] != nullptr) { why = std::string(what) + "[0] was NULL, now set"; return false; } return true; }
    size_t i = 0;
    for (; v[i]; i++) {
        if (i >= snap.size()) { why = std::string(what) + " has more entries than the caller passed"; return false; }
        if (snap[i] != v[i]) { why = std::string(what) + "[" + std::to_string(i) + "] differs"; return false; }
    }
    if (i != snap.size()) { why = std::string(what) + " has fewer entries (" + std::to_string(i) + " of " + std::to_string(snap.size()) + ")"; return false; }
    return true;
}

extern "C" __attribute__((visibility("default"))) int sim_exec_cb(int api, const char *path, char *const argv[], char *const envp[]) {
    int was = t_in_sut; t_in_sut = 0;
    OpState *st = t_op;
    if (!st) { g_probe_seen++; t_in_sut = was; errno = ENOENT; return -1; }
    ExecObs &o = *st->obs;
    SimScope sc;
    o.real_calls++;
    { Ev &e = sim_event("EXEC", path ? path : "<null>"); e.a = api; o.exec_seq = o.real_calls == 1 ? e.seq : o.exec_seq; }
    if (o.real_calls == 1) {
        o.real_api = api;
        std::string why;
        if (!path || st->op->path != path) { o.args_equal = false; o.args_diff = "path differs"; }
        else if (!vec_equal(argv, st->argv_snap, st->argv_null, st->op->argv0_null_hidden, why, "argv")) { o.args_equal = false; o.args_diff = why; }
        else if (api == 1 || api == 3) {
            if (st->op->api == 1) { if (!vec_equal(envp, st->envp_snap, st->envp_null, false, why, "envp")) { o.args_equal = false; o.args_diff = why; } }
            else { if (!vec_equal(envp, st->environ_snap, st->environ_ptr == nullptr, false, why, "environment (execv forwarded as execve)")) { o.args_equal = false; o.args_diff = why; } }
        } else if (api == 0 || api == 2) {
            if (st->op->api == 1) { o.args_equal = false; o.args_diff = "execve call forwarded without its envp"; }
            else if (environ != st->environ_ptr || !vec_equal(environ, st->environ_snap, st->environ_ptr == nullptr, false, why, "environ")) { o.args_equal = false; o.args_diff = why.empty() ? "environ pointer replaced" : why; }
        }
        if ((api == 0 || api == 1) ? false : true) { if (o.args_equal) { o.args_equal = false; o.args_diff = "different member of the exec family used"; } }
        o.stdout_pending_at_exec = g_sim_stdout ? __fpending(g_sim_stdout) : 0;
        o.stderr_pending_at_exec = g_sim_stderr ? __fpending(g_sim_stderr) : 0;
        t_in_sim--; o.at_exec = take_snapshot(); t_in_sim++;
    }
    if (st->op->success && st->jmp_armed) { t_in_sim = 0; longjmp(st->exec_jmp, 1); }
    t_in_sut = was;
    st->after_exec = true;
    int r = st->op->ret, e = st->op->err;
    // SimScope destructor runs at return; set errno last
    errno = e;
    return r;
}

// ------------------------------------------------------------------ one wrapped call
static char **make_vec(const std::vector<std::string> &v, bool is_null, bool hidden, std::vector<char *> &store) {
    store.clear();
    if (is_null) return nullptr;
    if (hidden) store.push_back(nullptr);
    for (auto &s : v) { char *c = (char *)malloc(s.size() + 1); memcpy(c, s.c_str(), s.size() + 1); store.push_back(c); }
    store.push_back(nullptr);
    char **arr = (char **)malloc(sizeof(char *) * store.size());
    memcpy(arr, store.data(), sizeof(char *) * store.size());
    return arr;
}
static void free_vec(char **arr, std::vector<char *> &store) { for (char *c : store) free(c); store.clear(); free(arr); }

static int do_call(OpState &st, const ExecOp &op, char *path, char **argv, char **envp, volatile long *ret, volatile int *err) {
    if (st.jmp_armed && setjmp(st.exec_jmp) != 0) { t_in_sut = 0; return 0; }
    t_in_sut = 1; errno = op.entry_errno;
    long r = op.api == 0 ? p_execv(path, argv) : p_execve(path, argv, envp);
    int e = errno;
    t_in_sut = 0;
    *ret = r; *err = e;
    return 1;
}

void exec_call(const ExecOp &op, int opi, ExecObs &obs) {
    t_in_sim++;                                // harness-side set-up: not library code (and hidden from TSan)
    if (AnnotateIgnoreReadsBegin) { AnnotateIgnoreReadsBegin(__FILE__, __LINE__); AnnotateIgnoreWritesBegin(__FILE__, __LINE__); }
    OpState st; st.op = &op; st.opi = opi; st.obs = &obs;
    obs.opi = opi; obs.thr = t_thr;
    std::vector<char *> env_store;
    st.argv_snap = op.argv; st.envp_snap = op.envp; st.argv_null = op.argv_null; st.envp_null = op.envp_null;
    char **argv = make_vec(op.argv, op.argv_null, op.argv0_null_hidden, st.argv_c);
    char **envp = make_vec(op.envp, op.envp_null, false, st.envp_c);
    char *path = (char *)malloc(op.path.size() + 1); memcpy(path, op.path.c_str(), op.path.size() + 1);
    char **saved_environ = environ;
    if (!G.multi) {   // the process environment is shared by all threads: Batch sets it once
        st.environ_snap = G.w.env;
        st.environ_ptr = make_vec(G.w.env, G.w.environ_null, false, env_store);
        environ = st.environ_ptr;
        sim_tzset_canonical();
    } else { st.environ_ptr = environ; st.environ_snap.clear(); if (environ) for (char **e = environ; *e; e++) st.environ_snap.push_back(*e); }
    obs.self_tid = (unsigned long)pthread_self();
    obs.before = take_snapshot();
    obs.ev_begin = (int)G.hist.size();
    st.jmp_armed = !G.multi;
    t_op = &st;
    sched_point(SP_CALL_ENTER);
    volatile long ret = 0; volatile int err = 0;
    if (AnnotateIgnoreReadsEnd) { AnnotateIgnoreWritesEnd(__FILE__, __LINE__); AnnotateIgnoreReadsEnd(__FILE__, __LINE__); }
    t_in_sim--;
    int returned = do_call(st, op, path, argv, envp, &ret, &err);
    t_in_sim = 1;
    if (AnnotateIgnoreReadsBegin) { AnnotateIgnoreReadsBegin(__FILE__, __LINE__); AnnotateIgnoreWritesBegin(__FILE__, __LINE__); }
    obs.returned = returned != 0; obs.ret = ret; obs.err = err;
    sched_point(SP_CALL_EXIT);
    t_op = nullptr;
    obs.ev_end = (int)G.hist.size();
    obs.after = take_snapshot();
    // caller-owned memory must be as it was
    if (obs.args_equal) {
        std::string why;
        if (strcmp(path, op.path.c_str()) != 0) { obs.args_equal = false; obs.args_diff = "path string modified in place"; }
        else if (argv && !op.argv0_null_hidden && !vec_equal(argv, st.argv_snap, false, false, why, "argv (after the call)")) { obs.args_equal = false; obs.args_diff = why; }
        else if (envp && !vec_equal(envp, st.envp_snap, false, false, why, "envp (after the call)")) { obs.args_equal = false; obs.args_diff = why; }
    }
    if (!G.multi) { environ = saved_environ; free_vec(st.environ_ptr, env_store); }
    free_vec(argv, st.argv_c); free_vec(envp, st.envp_c); free(path);
    if (AnnotateIgnoreReadsEnd) { AnnotateIgnoreWritesEnd(__FILE__, __LINE__); AnnotateIgnoreReadsEnd(__FILE__, __LINE__); }
    t_in_sim = 0;
}

// tzset() under the current `environ`, from a canonical prior state of the C library's time-zone code (its answers on a
// DST-end day depend on what was parsed before): every simulated process image starts from the same state
void sim_tzset_canonical() {
    static char other_tz[] = "TZ=XRESET0";
    char *reset_env[] = {other_tz, nullptr};
    char **run_env = environ;
    environ = reset_env; tzset();
    environ = run_env; tzset();
}

// harness-side strftime under the environment of the simulated process (oracle for %{datetime}).
// glibc's localtime_r() is state dependent on the day a POSIX TZ string without explicit rules leaves DST: the first
// conversion after the TZ string was parsed and a later one (rules cached for that year) can differ by the DST hour
// (TZ=CET-1CEST, 2009-11-01 07:23:31 UTC: +0200 first, +0100 afterwards). Both are "what the C library says"; the
// oracle therefore returns the freshly parsed answer and, if different, the cached one as an alternative.
std::vector<std::string> host_strftime_all(const World &w, const std::string &fmt, int64_t t) {
    std::vector<char *> store;
    char **saved = environ;
    char **e = make_vec(w.env, w.environ_null, false, store);
    static char other_tz[] = "TZ=XRESET0";
    char *reset_env[] = {other_tz, nullptr};
    std::vector<std::string> out;
    auto convert = [&]() {
        time_t tt = (time_t)t; struct tm tmv; char buf[512]; buf[0] = 0;
        std::string one;
        if (localtime_r(&tt, &tmv)) { size_t n = strftime(buf, 255, fmt.c_str(), &tmv); if (n == 0) one = "(error @ strftime())"; else one.assign(buf, n); }
        bool seen = false; for (auto &o : out) if (o == one) seen = true;
        if (!seen) out.push_back(one);
    };
    // the states a process can be in when it converts: TZ parsed right after the default zone, right after another POSIX
    // zone, and with the year's rules already cached
    environ = saved; tzset(); environ = e; tzset(); convert(); convert();
    environ = reset_env; tzset(); environ = e; tzset(); convert(); convert();
    environ = saved; tzset();
    free_vec(e, store);
    return out;
}
std::string host_strftime(const World &w, const std::string &fmt, int64_t t) { return host_strftime_all(w, fmt, t)[0]; }

// ------------------------------------------------------------------ plan interpreter
static void streams_begin() {
    G.fds.clear(); g_stdio_bufs.clear();
    if (G.w.tty_state != 1) { OpenDesc d0; d0.fd = 0; d0.kind = 0; d0.path = "<stdin>"; G.fds[0] = d0; }   // tty_state 1: the process runs with descriptor 0 closed
    if (G.w.stdout_kind != 3) {
        OpenDesc d1; d1.fd = 1; d1.kind = 2; d1.path = "<stdout>"; d1.flags = O_WRONLY; d1.id = G.next_descid++; G.fds[1] = d1;
        OpenDesc d2; d2.fd = 2; d2.kind = 3; d2.path = "<stderr>"; d2.flags = O_WRONLY; d2.id = G.next_descid++; G.fds[2] = d2;
    }
    g_sim_stdout = cookie_stream(1, "w", G.w.stdout_kind == 0 ? _IOLBF : _IOFBF, G.w.stdout_kind == 0 ? 1024 : 4096);   // closed: glibc cannot stat it and buffers fully
    g_sim_stderr = cookie_stream(2, "w", _IONBF, 0);
    g_saved_stdout = stdout; g_saved_stderr = stderr;
    stdout = g_sim_stdout; stderr = g_sim_stderr;
}
static void streams_end(bool process_replaced) {
    stdout = g_saved_stdout; stderr = g_saved_stderr;
    SimScope sc;
    // a replaced process image loses whatever still sits in user-space buffers
    if (process_replaced) { __fpurge(g_sim_stdout); __fpurge(g_sim_stderr); }
    // a process that lives on flushes at exit; those bytes are delivered late, after every exec of the run
    fclose(g_sim_stdout); fclose(g_sim_stderr);
    g_sim_stdout = g_sim_stderr = nullptr;
    for (auto &p : g_stdio_bufs) free(p.second);
    g_stdio_bufs.clear();
}

static uint64_t hist_hash(const RunResult &r) {
    uint64_t h = 1469598103934665603ULL;
    std::set<std::string> tids;
    for (auto &o : r.obs) tids.insert(std::to_string(o.self_tid));
    for (auto &e : r.hist) {
        std::string d = e.data;
        for (auto &t : tids) { if (t.size() < 6) continue; size_t p; while ((p = d.find(t)) != std::string::npos) d.replace(p, t.size(), "<TID>"); }
        char b[160]; snprintf(b, sizeof b, "|%d|%s|%ld|%ld|%ld|%ld|%d|%d|", e.thr, e.k.c_str(), e.a, e.b, e.c, e.ret, e.err, e.mark);
        h = fnv(b, h); h = fnv(e.s, h); h = fnv(d, h);
    }
    for (auto &o : r.obs) { char b[96]; snprintf(b, sizeof b, "o%d:%d:%d:%ld:%d:%d;", o.opi, o.real_calls, (int)o.returned, o.ret, o.err, (int)o.args_equal); h = fnv(b, h); }
    return h;
}

// process-wide state a run may have changed (a defect under test may install handlers, chdir, ...): every run starts
// from the state captured at start-up, so that no run depends on the runs made before it in the same worker
static struct sigaction g_sig0[65]; static sigset_t g_mask0; static unsigned g_umask0; static char g_cwd0[4096]; static bool g_proc0 = false;
static void proc_state_capture() {
    for (int sig = 1; sig < 65; sig++) sigaction(sig, nullptr, &g_sig0[sig]);
    pthread_sigmask(SIG_SETMASK, nullptr, &g_mask0);
    g_umask0 = (unsigned)raw_syscall6(SYS_umask, 022, 0, 0, 0, 0, 0); raw_syscall6(SYS_umask, g_umask0, 0, 0, 0, 0, 0);
    if (raw_syscall6(SYS_getcwd, (long)g_cwd0, sizeof g_cwd0, 0, 0, 0, 0) <= 0) g_cwd0[0] = 0;
    g_proc0 = true;
}
static void proc_state_restore() {
    if (!g_proc0) return;
    for (int sig = 1; sig < 65; sig++) { if (sig == SIGKILL || sig == SIGSTOP || sig == 32 || sig == 33 || sig == SIGALRM) continue; sigaction(sig, &g_sig0[sig], nullptr); }
    pthread_sigmask(SIG_SETMASK, &g_mask0, nullptr);
    raw_syscall6(SYS_umask, g_umask0, 0, 0, 0, 0, 0);
    if (g_cwd0[0]) raw_syscall6(SYS_chdir, (long)g_cwd0, 0, 0, 0, 0, 0);
    setlocale(LC_ALL, "C");
}

RunResult sim_run(const Plan &plan) {
    RunResult r;
    lib_state_restore();
    proc_state_restore();
    // the calling program may have selected a locale of its own (a category that does not change what the data sources print): it is part
    // of what a wrapped call has to leave as it found it
    if ((plan.property == "C16" || plan.property == "C02") && (plan.seed & 1)) setlocale(LC_TIME, "C.utf8");
    G = Sim();
    G.w = plan.world; G.w.render_proc();
    G.w.stdout_bytes.clear(); G.w.stderr_bytes.clear(); G.w.tty_bytes.clear();
    G.step_cap = plan.extra.geti("step_cap", 400000);
    { struct sigaction sa; sigaction(SIGPIPE, nullptr, &sa); G.sigpipe_ignored = sa.sa_handler == SIG_IGN; }
    heap_reset(); g_hooks_on = 1;
    streams_begin();
    size_t nexec = 0;
    for (auto &o : plan.ops) { if (o.op == "Exec" || o.op == "CliConf" || o.op == "ForkExec") nexec++; for (auto &t : o.threads) nexec += t.size(); }
    r.obs.reserve(nexec + 4);
    bool replaced = false;
    G.run_jmp_armed = true;
    if (setjmp(G.run_jmp) == 0) {
        int opi = 0;
        for (size_t k = 0; k < plan.ops.size() && !replaced && G.abort_class.empty(); k++) {
            const Op &op = plan.ops[k];
            if (op.op == "SetConfig") {
                apply_setconfig(G.w, op);
            } else if (op.op == "Mutate") {
                apply_mutate(G.w, op.patch);
                // descriptor 0 follows the state of stdin (the process closed or re-opened it)
                { auto it0 = G.fds.find(0); bool is_stdin = it0 != G.fds.end() && it0->second.path == "<stdin>";
                  if (G.w.tty_state == 1 && is_stdin) G.fds.erase(it0);
                  else if (G.w.tty_state != 1 && it0 == G.fds.end()) { OpenDesc d0; d0.fd = 0; d0.kind = 0; d0.path = "<stdin>"; G.fds[0] = d0; } }
            } else if (op.op == "Exec") {
                r.obs.emplace_back();
                exec_call(op.ex, opi++, r.obs.back());
                if (!r.obs.back().returned) replaced = true;
            } else if (op.op == "CliConf") {
                // the option-value API that `snoopyctl conf` prints, between cli_init and cli_exit
                r.obs.emplace_back(); ExecObs &ob = r.obs.back(); ob.opi = opi++;
                std::vector<char *> store; char **saved = environ; char **e = make_vec(G.w.env, G.w.environ_null, false, store); environ = e;
                OpState st; ExecOp dummy; st.op = &dummy; st.opi = ob.opi; st.obs = &ob; t_op = &st;
                ob.before = take_snapshot(); ob.ev_begin = (int)G.hist.size();
                static const char *names[] = {"error_logging", "filter_chain", "message_format", "output", "syslog_facility", "syslog_ident", "syslog_level", "datasource_message_max_length", "log_message_max_length"};
                for (int pass = 0; pass < (op.roundtrip ? 2 : 1); pass++) {
                    J rep = J::obj();
                    t_in_sut = 1; p_cli_init(); t_in_sut = 0;
                    for (const char *n : names) { t_in_sut = 1; char *v = p_optval(n); t_in_sut = 0; if (v) { rep.set(n, std::string(v)); t_in_sut = 1; free(v); t_in_sut = 0; } else rep.set(n, J()); }
                    t_in_sut = 1; p_cli_exit(); t_in_sut = 0;
                    if (pass == 0) {
                        r.cli_conf = rep;
                        if (op.roundtrip) { std::string f = "[snoopy]\n"; for (auto &kv : rep.o) if (kv.second.t == J::STR) f += kv.first + " = " + kv.second.s + "\n"; FileNode fn; fn.content = f; G.w.files[SIM_CONFIG_PATH] = fn; }
                    } else r.cli_conf2 = rep;
                }
                t_op = nullptr; ob.ev_end = (int)G.hist.size(); ob.after = take_snapshot(); ob.returned = true;
                environ = saved; free_vec(e, store);
            } else if (op.op == "Batch") {
                run_batch(plan, opi, op, r);
                for (auto &t : op.threads) opi += (int)t.size();
            } else if (op.op == "ForkExec") {
                run_forkexec(plan, opi, op, r);
                opi += 1;
            }
        }
    }
    G.run_jmp_armed = false;
    t_in_sut = 0; t_in_sim = 0; t_op = nullptr;
    g_hooks_on = 0;
    if (G.abort_class.empty()) streams_end(replaced);
    else { stdout = g_saved_stdout; stderr = g_saved_stderr; }
    r.hist = std::move(G.hist);
    r.end_world = G.w;
    r.abort_class = G.abort_class; r.abort_detail = G.abort_detail;
    r.counters = G.counters;
    r.hash = hist_hash(r);
    return r;
}

std::vector<Delivery> deliveries_all(const RunResult &r, int opi) {
    std::vector<Delivery> out;
    std::map<long, size_t> by_desc;
    for (auto &e : r.hist) {
        if (e.opi != opi) continue;
        if (e.k == "write" && e.ret > 0) {
            auto it = by_desc.find(e.a);
            if (it == by_desc.end()) {
                Delivery d;
                if (e.s == "<stdout>") d.sink = "stdout"; else if (e.s == "<stderr>") d.sink = "stderr";
                else if (e.s == "/dev/null") d.sink = "null"; else if (e.s == "/dev/tty") d.sink = "tty"; else d.sink = "file:" + e.s;
                d.flags = e.c; d.first_seq = e.seq; d.opi = opi; d.thr = e.thr; d.fdid = (int)e.a;
                out.push_back(d); it = by_desc.emplace(e.a, out.size() - 1).first;
            }
            Delivery &d = out[it->second];
            d.bytes += e.data; d.writes++; d.last_seq = e.seq;
        } else if (e.k == "send" && e.ret >= 0) {
            Delivery d; d.sink = "sock:" + e.s; d.bytes = e.data; d.writes = 1; d.flags = e.c; d.first_seq = d.last_seq = e.seq; d.opi = opi; d.thr = e.thr; d.fdid = (int)e.a;
            out.push_back(d);
        } else if (e.k == "close") {
            by_desc.erase(e.a);   // a later open of the same path is a new record
        }
    }
    return out;
}
std::vector<Delivery> deliveries(const RunResult &r, int opi) {
    int exec_seq = -1;
    for (auto &o : r.obs) if (o.opi == opi) exec_seq = o.exec_seq;
    std::vector<Delivery> all = deliveries_all(r, opi), out;
    for (auto &d : all) {
        if (exec_seq >= 0 && d.first_seq > exec_seq) continue;
        if (exec_seq >= 0 && d.last_seq > exec_seq) {
            // partially late: keep only what was out before the exec
            Delivery c = d; c.bytes.clear(); c.writes = 0;
            for (auto &e : r.hist) if (e.opi == opi && e.seq < exec_seq && e.a == d.fdid && (e.k == "write" || e.k == "send") && e.ret > 0) { c.bytes += e.data; c.writes++; c.last_seq = e.seq; }
            out.push_back(c);
        } else out.push_back(d);
    }
    return out;
}

// ------------------------------------------------------------------ start-up
void sim_global_init() {
    void *h = dlopen("libsnoopy.so.0", RTLD_NOW | RTLD_NOLOAD);
    if (!h) { dprintf(2, "harness problem: libsnoopy.so.0 is not loaded: %s\n", dlerror()); _exit(2); }
    p_execv = (execv_t)dlsym(h, "execv"); p_execve = (execve_t)dlsym(h, "execve");
    p_cli_init = (void (*)())dlsym(h, "snoopy_entrypoint_cli_init"); p_cli_exit = (void (*)())dlsym(h, "snoopy_entrypoint_cli_exit");
    p_optval = (char *(*)(const char *))dlsym(h, "snoopy_configfile_optionRegistry_getOptionValueAsString");
    int (*ver)(char *, size_t, const char *) = (int (*)(char *, size_t, const char *))dlsym(h, "snoopy_datasource_snoopy_version");
    if (!p_execv || !p_execve || !p_cli_init || !p_cli_exit || !p_optval) { dprintf(2, "harness problem: libsnoopy entry points missing\n"); _exit(2); }
    if (ver) { char b[128] = ""; ver(b, sizeof b, ""); g_snoopy_version = b; }
    lib_state_capture();
    proc_state_capture();
    if (__sanitizer_install_malloc_and_free_hooks) __sanitizer_install_malloc_and_free_hooks(hook_malloc, hook_free);
    // probe: the recorder must be what the wrapper reaches
    Plan p; { FileNode dn; dn.kind = 1; p.world.files["/simroot"] = dn; }
    G = Sim(); G.w = p.world;
    char *av[] = {(char *)"probe", nullptr}; char *ev[] = {nullptr};
    t_in_sut = 1; int rc = p_execve("/probe", av, ev); t_in_sut = 0;
    if (g_probe_seen != 1 || rc != -1) { dprintf(2, "harness problem: recorder not reached by the wrapper (seen=%d rc=%d)\n", g_probe_seen, rc); _exit(2); }
    lib_state_restore();
}
