#include "checks_common.hpp"
#include <map>

static std::map<std::string, Check> &registry() { static std::map<std::string, Check> m; return m; }
void register_check(const Check &c) { registry()[c.id] = c; }
const Check *find_check(const char *id) { auto it = registry().find(id); return it == registry().end() ? nullptr : &it->second; }

std::vector<CallView> calls_of(const Plan &p) {
    std::vector<CallView> v; World w = p.world; w.render_proc(); int opi = 0;
    for (size_t k = 0; k < p.ops.size(); k++) {
        const Op &o = p.ops[k];
        if (o.op == "SetConfig") apply_setconfig(w, o);
        else if (o.op == "Mutate") apply_mutate(w, o.patch);
        else if (o.op == "Exec") v.push_back({opi++, &o.ex, w, k});
        else if (o.op == "CliConf") opi++;
        else if (o.op == "ForkExec") { v.push_back({opi++, &o.ex, w, k, (int)(1 + o.extra_calls.size())}); }
        else if (o.op == "Batch") for (auto &t : o.threads) for (auto &e : t) v.push_back({opi++, &e, w, k, (int)o.threads.size()});
    }
    return v;
}
const ExecObs *obs_of(const RunResult &r, int opi) { for (auto &o : r.obs) if (o.opi == opi) return &o; return nullptr; }
Verdict ok() { return Verdict(); }
Verdict bad(const std::string &cls, const std::string &detail) { Verdict v; v.violated = true; v.cls = cls; v.detail = detail; return v; }
std::string show(const std::string &s, size_t max) {
    std::string o;
    for (unsigned char c : s.substr(0, max)) { if (c >= 32 && c < 127) o.push_back((char)c); else { char b[8]; snprintf(b, sizeof b, "\\x%02x", c); o += b; } }
    if (s.size() > max) o += "...(" + std::to_string(s.size()) + " bytes)";
    return o;
}

Verdict passthrough_oracle(const ExecOp &op, const ExecObs &o, const RunResult &r) {
    std::string at = "call #" + std::to_string(o.opi) + ": ";
    if (o.real_calls != 1) return bad("exec-count", at + "real exec reached " + std::to_string(o.real_calls) + " times");
    if (!o.args_equal) return bad("args-altered", at + o.args_diff);
    for (auto &e : r.hist) if (e.opi == o.opi && e.seq > o.exec_seq && e.k != "EXEC")
        return bad("work-after-exec", at + "'" + e.k + "' " + e.s + " happens after the real exec was entered");
    if (o.steps_after_exec > 0 || o.heap_ops_after_exec > 0)
        return bad("work-after-exec", at + "the library is still at work after the real exec was entered (" + std::to_string(o.steps_after_exec) + " intercepted calls, " + std::to_string(o.heap_ops_after_exec) + " heap operations after it returned)");
    if (op.success) { if (o.returned) return bad("result-altered", at + "successful exec returned to the caller"); }
    else {
        if (!o.returned) return bad("result-altered", at + "failing exec did not return");
        if (o.ret != op.ret) return bad("result-altered", at + "return value " + std::to_string(o.ret) + " instead of " + std::to_string(op.ret));
        if (o.err != op.err) return bad("result-altered", at + "errno " + std::to_string(o.err) + " instead of " + std::to_string(op.err));
    }
    return ok();
}

std::string gen_modelled_format(Rng &r, const std::string &marker, size_t maxlen) {
    static const char *plain_tags[] = {"uid", "euid", "gid", "egid", "username", "eusername", "group", "egroup", "pid", "ppid", "sid", "tid", "tid_kernel", "cwd", "hostname", "tty",
        "tty_uid", "tty_username", "login", "filename", "cmdline", "snoopy_version", "timestamp", "timestamp_ms", "timestamp_us", "datetime", "rpname", "failure", "noop", "domain", "ipaddr", "systemd_unit_name"};
    std::string f;
    int n = (int)r.range(1, 8);
    for (int i = 0; i < n && f.size() < maxlen; i++) {
        switch (r.below(7)) {
        case 0: case 1: f += gen_token(r, 1, 12, 0); f += marker; break;
        case 2: f += std::string("%{") + plain_tags[r.below(sizeof plain_tags / sizeof *plain_tags)] + "}"; break;
        case 3: f += "%{snoopy_literal:" + marker + gen_token(r, 0, 20, 0) + "}"; break;
        case 4: f += "%{env:K" + std::to_string(r.below(14)) + "}"; break;
        case 5: { static const char *fm[] = {"%Y-%m-%d", "%s", "%H:%M:%S %Z", "%FT%T%z", "%a %b %e %j", "%%", "%G-W%V-%u"}; f += std::string("%{datetime:") + fm[r.below(7)] + "}"; break; }
        default: { static const char *cg[] = {"0", "1", "12", "cpu", "name=systemd", "pids", "nosuch"}; f += std::string("%{cgroup:") + cg[r.below(7)] + "}"; }
        }
        if (r.chance(1, 2)) f += r.chance(1, 2) ? " " : ":";
    }
    while (!f.empty() && (f.back() == ' ' || f.back() == '\t')) f.pop_back();
    if (f.empty()) f = marker;
    return f;
}

std::string gen_chain(Rng &r, const World &w, int maxel) {
    std::string c;
    int n = (int)r.range(0, maxel);
    for (int i = 0; i < n; i++) {
        std::string el;
        switch (r.below(9)) {
        case 0: el = "only_root"; break;
        case 1: el = "only_tty"; break;
        case 2: el = "noop"; break;
        case 3: case 4: {
            el = r.chance(1, 2) ? "only_uid:" : "exclude_uid:";
            int m = (int)r.range(1, 5);
            for (int k = 0; k < m; k++) { if (k) el += ","; el += std::to_string(r.chance(1, 3) ? w.uid : r.chance(1, 2) ? w.euid : gen_id(r)); }
            break; }
        case 5: case 6: {
            el = "exclude_spawns_of:";
            int m = (int)r.range(1, 4);
            for (int k = 0; k < m; k++) { if (k) el += ","; el += (r.chance(1, 2) && !w.procs.empty()) ? w.procs[r.below(w.procs.size())].comm : gen_comm(r); }
            break; }
        case 7: { static const char *odd[] = {"nosuchfilter", "nosuchfilter:x", "only_uid", "exclude_uid", "exclude_spawns_of", "only_root:ignored", "noop:x"}; el = odd[r.below(7)]; break; }
        default: el = ""; break;
        }
        // the INI layer cuts at ';' after white space and strips the ends: keep elements free of that
        for (auto &ch : el) if (ch == ';') ch = '_';
        while (!el.empty() && (el.back() == ' ' || el.back() == '\t')) el.pop_back();
        c += el;
        if (i + 1 < n || r.chance(1, 5)) c += ";";
    }
    while (!c.empty() && (c[0] == ' ' || c[0] == '"' || c[0] == '\'')) c.erase(0, 1);
    return c;
}

std::string gen_known_config(Rng &r, const World &w, CfgSpec *out) {
    CfgSpec s;
    std::string marker = "M" + std::to_string(r.below(100000)) + "_";
    if (r.chance(5, 6)) { s.has_format = true; s.format = gen_modelled_format(r, marker); }
    if (r.chance(1, 2)) { s.has_chain = true; s.chain = gen_chain(r, w); }
    if (r.chance(5, 6)) { s.has_output = true; s.output = gen_output_value(r, w); }
    if (r.chance(1, 2)) { s.has_facility = true; s.facility = std::string(r.chance(1, 3) ? "LOG_" : "") + FAC_NAMES[r.below(20)]; if (r.chance(1, 3)) for (auto &c : s.facility) c = (char)tolower(c); }
    if (r.chance(1, 2)) { s.has_level = true; s.level = std::string(r.chance(1, 3) ? "LOG_" : "") + LEV_NAMES[r.below(8)]; if (r.chance(1, 3)) for (auto &c : s.level) c = (char)tolower(c); }
    if (r.chance(1, 3)) { s.has_ident = true; s.ident = r.chance(1, 2) ? "snoopy-%{uid}" : "id" + gen_token(r, 0, 20, 0); }
    if (r.chance(1, 4)) { s.has_errlog = true; s.errlog = r.chance(1, 2) ? "yes" : "no"; }
    if (out) *out = s;
    return s.render(r);
}
