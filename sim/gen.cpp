#include "gen.hpp"
#include <string.h>

const char *FAC_NAMES[20] = {"AUTH", "AUTHPRIV", "CRON", "DAEMON", "FTP", "KERN", "LOCAL0", "LOCAL1", "LOCAL2", "LOCAL3", "LOCAL4", "LOCAL5", "LOCAL6", "LOCAL7", "LPR", "MAIL", "NEWS", "SYSLOG", "USER", "UUCP"};
const char *LEV_NAMES[8] = {"EMERG", "ALERT", "CRIT", "ERR", "WARNING", "NOTICE", "INFO", "DEBUG"};

uint32_t gen_id(Rng &r) {
    switch (r.below(8)) {
    case 0: return 0;
    case 1: return (uint32_t)r.range(1, 999);
    case 2: return (uint32_t)r.range(1000, 60000);
    case 3: return (uint32_t)r.range(65534, 65537);
    case 4: return 2147483647u;
    case 5: return 2147483648u;
    case 6: return 4294967294u;
    default: return (uint32_t)r.range(1, 70000);
    }
}

std::string gen_token(Rng &r, size_t minlen, size_t maxlen, int cls) {
    size_t n = (size_t)r.range((int64_t)minlen, (int64_t)maxlen);
    std::string s; s.reserve(n);
    static const char safe[] = "abcdefghijklmnopqrstuvwxyzABCDEFGHIJKLMNOPQRSTUVWXYZ0123456789_-./";
    for (size_t i = 0; i < n; i++) {
        if (cls == 0) s.push_back(safe[r.below(sizeof safe - 1)]);
        else if (cls == 1) s.push_back((char)r.range(32, 126));
        else if (cls == 2) { unsigned char c; do c = (unsigned char)r.range(1, 255); while (c == '\n'); s.push_back((char)c); }
        else s.push_back(r.chance(1, 6) ? '\n' : (char)r.range(1, 255));   // any byte but NUL: only where no configuration line is built from it
    }
    return s;
}

std::string gen_comm(Rng &r) {
    static const char *fixed[] = {"bash", "sshd", "cron", "sh", "systemd", "my prog", "a)b", "(paren)", "x", "fifteen-bytes-ok", "bash2", "ba", "sudo", "init", "tmux: server", " lead", "svc-runner ", "  two  blanks "};
    if (r.chance(3, 4)) { std::string s = fixed[r.below(sizeof fixed / sizeof *fixed)]; return s.substr(0, 15); }
    return gen_token(r, 1, 15, 0);
}

World base_world() {
    World w;
    FileNode d; d.kind = 1;
    for (const char *p : {"/", "/dev", "/simroot", "/simroot/etc", "/var", "/var/log", "/log", "/tmp", "/etc", "/run"}) w.files[p] = d;
    FileNode nul; nul.kind = 2; w.files["/dev/null"] = nul;
    FileNode tty; tty.kind = 3; w.files["/dev/tty"] = tty;
    FileNode hosts; hosts.content = "127.0.0.1 localhost\n10.1.2.3 simhost.example.org simhost\n"; w.files["/etc/hosts"] = hosts;
    w.socks["/dev/log"] = SockNode();
    w.passwd = {{0, "root"}}; w.group = {{0, "wheel"}};
    w.procs = {{4242, 4000, "worker", {"0::/user.slice/user-0.slice/session-1.scope"}}, {4000, 1, "bash", {}}, {1, 0, "systemd", {}}};
    w.env = {"PATH=/usr/bin:/bin", "HOME=/root", "LANG=C"};
    w.has_ctty = false;
    return w;
}

World gen_world(Rng &r) {
    World w = base_world();
    w.uid = gen_id(r); w.euid = r.chance(1, 3) ? w.uid : gen_id(r);
    w.gid = gen_id(r); w.egid = r.chance(1, 3) ? w.gid : gen_id(r);
    w.pid = (int)r.range(2, 4194304); w.sid = (int)r.range(1, 4194304); w.tid_kernel = r.chance(1, 2) ? w.pid : (int)r.range(2, 4194304);
    // name tables: some ids named, names unique across ids, user and group names disjoint
    w.passwd.clear(); w.group.clear();
    std::vector<uint32_t> ids = {w.uid, w.euid, w.gid, w.egid, 0, 1000};
    uint32_t tty_uid = gen_id(r); ids.push_back(tty_uid);
    int k = 0;
    for (uint32_t id : ids) {
        if (!w.pw(id) && r.chance(2, 3)) w.passwd.push_back({id, "usr" + std::string(1, (char)('a' + k)) + std::to_string(id % 97)});
        if (!w.gr(id) && r.chance(2, 3)) w.group.push_back({id, "grp" + std::string(1, (char)('a' + k)) + std::to_string(id % 89)});
        // the rest of the entry: member lists of groups run to kilobytes, a passwd entry can carry a long gecos field - more than the 1024 bytes
        // sysconf(_SC_GETxx_R_SIZE_MAX) suggests as the initial buffer
        if (r.chance(1, 6)) { static const uint32_t big[] = {300, 1000, 1030, 1100, 3000, 20000, 70000}; if (!w.group.empty() && w.group.back().id == id) w.group.back().entry_bytes = big[r.below(7)]; if (r.chance(1, 3) && !w.passwd.empty() && w.passwd.back().id == id) w.passwd.back().entry_bytes = big[r.below(5)]; }
        k++;
    }
    // ancestor chain
    int depth = r.chance(1, 10) ? 0 : (int)r.range(1, 12);   // depth 0: the process is a direct child of pid 1 (daemon) or of pid 0
    w.procs.clear();
    std::vector<int> pids = {w.pid};
    for (int i = 0; i < depth; i++) { int p; bool dup; do { p = r.chance(1, 3) ? (int)r.range(1000000, 4194303) : (int)r.range(2, 99999); dup = false; for (int q : pids) if (q == p) dup = true; } while (dup); pids.push_back(p); }
    pids.push_back(r.chance(9, 10) ? 1 : 0);   // attached into a container: chain ends at pid 0
    for (size_t i = 0; i + 1 < pids.size(); i++) {
        Proc p; p.pid = pids[i]; p.ppid = pids[i + 1]; p.comm = gen_comm(r);
        if (i == 0) {
            switch (r.below(4)) {
            case 0: p.cgroup = {"0::/user.slice/user-" + std::to_string(w.uid) + ".slice/session-4.scope"}; break;
            case 1: p.cgroup = {"12:pids:/system.slice/ssh.service", "5:cpu,cpuacct:/", "1:name=systemd:/system.slice/ssh.service", "0::/system.slice/ssh.service"}; break;
            default: {   // the layouts systemd produces for the name=systemd hierarchy, and some it does not
                static const char *unit[] = {"", "init.scope", "system.slice/cron.service", "system.slice/foo.bar.service", "system.slice/dbus.socket", "system.slice/system-getty.slice/getty@tty1.service",
                    "system.slice/", "machine.slice/libvirt", "user.slice/", "user.slice/nouser", "user.slice/user-12", "init.scopex"};
                std::string path;
                if (r.chance(1, 2)) { uint32_t id = r.chance(1, 2) ? w.uid : r.chance(1, 2) ? 0 : (uint32_t)r.range(1, 70000); path = "user.slice/user-" + std::to_string(id) + ".slice" + (r.chance(1, 2) ? "/session-" + std::to_string(r.below(5000)) + ".scope" : ""); }
                else path = unit[r.below(12)];
                std::string hier = r.chance(5, 6) ? "1" : std::to_string(r.range(2, 13));
                p.cgroup = {"11:memory:/x", hier + ":name=systemd:/" + path, "0::/" + path};
                if (r.chance(1, 2)) std::swap(p.cgroup[0], p.cgroup[1]);
                if (r.chance(1, 5)) {   // a container host: many hierarchies with long paths in front - the file is 1.5 to 12 KiB, more than one read
                    int k = (int)r.range(12, 100); std::vector<std::string> pre;
                    for (int q = 0; q < k; q++) pre.push_back(std::to_string(20 + q) + ":ctl" + std::to_string(q) + ":/kubepods/burstable/pod0a1b2c3d-4e5f-6789-abcd-ef0123456789/" + std::string(40, (char)('a' + q % 26)));
                    p.cgroup.insert(p.cgroup.begin(), pre.begin(), pre.end());
                }
                if (r.chance(1, 12)) p.cgroup.clear();   // an empty cgroup file
            }
            }
        }
        w.procs.push_back(p);
    }
    if (pids.back() == 1) { Proc init; init.pid = 1; init.ppid = 0; init.comm = r.chance(1, 2) ? "systemd" : "init"; w.procs.push_back(init); }
    w.ppid = pids[1];
    // terminal
    w.tty_state = (int)r.below(3);
    if (r.chance(1, 2)) w.tty_state = 2;
    w.tty_path = r.chance(1, 2) ? "/dev/pts/" + std::to_string(r.below(200)) : "/dev/tty" + std::to_string(r.below(12));
    w.tty_uid = tty_uid; w.has_ctty = w.tty_state == 2 ? r.chance(9, 10) : r.chance(1, 10);
    if (r.chance(1, 3)) { UtmpEnt o; o.line = r.chance(1, 2) ? w.tty_path.substr(5) + "0" : "tty63"; o.user = "other"; o.addr[0] = 0x0100007f; w.utmp.push_back(o); }   // somebody else's session first
    if (w.tty_state == 2 && r.chance(2, 3)) { UtmpEnt u; u.line = w.tty_path.substr(5); u.user = "someone"; if (r.chance(1, 2)) {
            u.addr[0] = (uint32_t)r.next();
            if (r.chance(1, 3)) { u.addr[1] = (uint32_t)r.next(); u.addr[2] = 1; u.addr[3] = 2; }
            else if (r.chance(1, 4)) { u.addr[0] = u.addr[1] = 0; if (r.chance(1, 2)) { u.addr[2] = 0xffff0000u; u.addr[3] = (uint32_t)r.next(); } else { u.addr[2] = 0; u.addr[3] = 0x01000000u; } }   // ::ffff:a.b.c.d and ::1: the first words are zero
        }
        w.utmp.push_back(u); }
    w.login_errno = r.chance(1, 2) ? 0 : (r.chance(1, 2) ? 6 /*ENXIO*/ : 25 /*ENOTTY*/);
    w.login_name = "login" + std::to_string(r.below(100));
    // environment
    w.env.clear();
    switch (r.below(6)) {
    case 0: break;                                                        // empty
    case 1: w.environ_null = true; break;                                 // after clearenv()
    case 2: { size_t n = (size_t)r.range(100, 600); for (size_t i = 0; i < n; i++) w.env.push_back("V" + std::to_string(i) + "=" + gen_token(r, 0, 20, 0)); break; }
    default: { size_t n = (size_t)r.range(1, 12); for (size_t i = 0; i < n; i++) w.env.push_back("K" + std::to_string(i) + "=" + gen_token(r, 0, 30, (int)r.below(4))); }
    }
    if (!w.environ_null) {
        if (r.chance(1, 3)) w.env.push_back("SUDO_USER=sudoer" + std::to_string(r.below(9)));
        if (r.chance(1, 2)) w.env.push_back("LOGNAME=logname" + std::to_string(r.below(9)));
        if (r.chance(1, 2)) { static const char *tz[] = {"UTC", "EST5EDT", "CET-1CEST", "XYZ-3:30", "Asia/Kolkata", "America/St_Johns", "Pacific/Kiritimati", "NOSUCH/Zone"}; w.env.push_back(std::string("TZ=") + tz[r.below(8)]); }
        if (r.chance(1, 6)) w.env.push_back("ODD=a=b=c");
        for (size_t i = w.env.size(); i > 1; i--) std::swap(w.env[i - 1], w.env[r.below(i)]);
    }
    // cwd, host, clock
    switch (r.below(5)) { case 0: w.cwd = "/"; break; case 1: w.cwd = "/home/" + gen_token(r, 1, 40, 0); break; case 2: w.cwd = "/" + gen_token(r, 200, 900, 0); break; case 3: w.cwd = "/srv/with space/x"; break; default: w.cwd = "/var/tmp (deleted)"; }
    if (r.chance(1, 12)) w.cwd_errno = 2;
    // what the shell left in $PWD: the canonical path, another name of the same directory, or a directory left long ago
    if (!w.environ_null && r.chance(1, 3)) { static const char *alias[] = {".", "/proc/self/cwd", "/somewhere/else", ""}; int k = (int)r.below(6); w.env.insert(w.env.begin() + (long)r.below(w.env.size() + 1), "PWD=" + (k < 4 ? std::string(alias[k]) : k == 4 ? w.cwd : w.cwd + "/.")); }
    w.hostname = r.chance(1, 2) ? "simhost" : gen_token(r, 1, 63, 0);
    if (r.chance(2, 3)) {   // /etc/hosts naming this host in several spellings
        std::string h = w.hostname, H = h; for (auto &ch : H) ch = (char)toupper((unsigned char)ch);
        static const char *dom[] = {"example.org", "corp.internal", "d", "sub.dom.example.com"};
        std::string c; int n = (int)r.range(1, 5);
        for (int i = 0; i < n; i++) {
            std::string d = dom[r.below(4)], l;
            switch (r.below(9)) {
            case 0: l = "127.0.0.1 localhost"; break;
            case 1: l = "10.0.0.5 " + h + "." + d + " " + h; break;
            case 2: l = "10.0.0.5\t" + H + "." + d; break;
            case 3: l = "# 10.0.0.9 " + h + ".commented.example"; break;
            case 4: l = "10.0.0.7 other.example.org # " + h + ".in-comment.example"; break;
            case 5: l = "10.0.0.8 pre" + h + "." + d; break;
            case 6: l = "10.0.0.6 " + h; break;
            case 7: l = "10.0.0.6 " + h + "."; break;
            default: l = "10.0.0.4 " + h + "." + d + "\r"; break;
            }
            c += l; if (i + 1 < n || r.chance(4, 5)) c += "\n";
        }
        w.files["/etc/hosts"].content = c;
    }
    static const int64_t instants[] = {0, 1, 951782400 /*2000-02-29*/, 1111111111, 1703980799 /*2023-12-30 23:59:59*/, 1704067199 /*2023-12-31 23:59:59Z*/, 1711846799 /* around EU DST */, 2147483647, 2147483648LL, 4102444800LL, 1700000000};
    w.clock_us = (r.chance(1, 2) ? instants[r.below(sizeof instants / sizeof *instants)] : (int64_t)r.below(4200000000ULL)) * 1000000 + (int64_t)r.below(1000000);
    w.clock_step_us = r.chance(1, 4) ? (int64_t)r.range(100000, 900000) : (int64_t)r.range(1, 999);
    w.stdout_kind = (int)r.below(3);
    if (r.chance(1, 12)) w.stdout_kind = 3;   // a daemon that closed its standard descriptors
    // ids that differ because the program file is set-uid / set-gid: the kernel then starts the image in secure-execution mode
    if ((w.uid != w.euid || w.gid != w.egid) && r.chance(1, 2)) w.at_secure = true;
    return w;
}

void gen_outcome(Rng &r, ExecOp &e, bool allow_success) {
    if (allow_success && r.chance(1, 3)) { e.success = true; return; }
    e.success = false;
    e.err = r.chance(1, 2) ? (int)r.range(1, 133) : (int)(r.chance(1, 2) ? 2 : 13);
    e.ret = r.chance(9, 10) ? -1 : (int)r.range(-5, 300);
}

ExecOp gen_exec(Rng &r, const std::string &marker, int size_class) {
    ExecOp e;
    e.api = (int)r.below(2);
    int cls = r.chance(1, 8) ? 3 : (int)r.below(3);
    e.path = r.chance(1, 12) ? "" : "/bin/" + marker + gen_token(r, 0, size_class >= 2 ? 300 : 12, cls >= 2 ? cls : 0);
    if (r.chance(1, 10)) { static const char *pc[] = {"%s", "%m", "%%", "%d", "%", "%x%x"}; e.path += pc[r.below(6)]; }
    switch (r.below(size_class >= 3 ? 10 : 8)) {
    case 0: e.argv_null = true; break;
    case 1: break;                                         // { NULL }
    case 2: e.argv0_null_hidden = true; e.argv = {marker + "hidden1", marker + "hidden2"}; break;
    case 8: case 9: { size_t n = (size_t)r.range(1000, 5000); for (size_t i = 0; i < n; i++) e.argv.push_back(marker + std::to_string(i)); break; }
    default: {
        size_t n = (size_t)r.range(1, size_class == 0 ? 4 : 12);
        for (size_t i = 0; i < n; i++) {
            size_t mx = size_class == 0 ? 12 : size_class == 1 ? 200 : size_class == 2 ? 3000 : 262144;
            std::string a = r.chance(1, 8) ? "" : marker + gen_token(r, 0, r.chance(1, 6) ? mx : 10, cls);
            e.argv.push_back(a);
        }
    }
    }
    switch (r.below(5)) {
    case 0: e.envp_null = true; break;
    case 1: break;
    default: { size_t n = (size_t)r.range(1, 6); for (size_t i = 0; i < n; i++) e.envp.push_back("E" + std::to_string(i) + "=" + marker + gen_token(r, 0, 16, cls)); }
    }
    gen_outcome(r, e, false);
    return e;
}

std::string quote_if_needed(Rng &r, const std::string &v, bool plain) {
    bool need = v.empty() ? false : (v[0] == ' ' || v[0] == '\t' || v.back() == ' ' || v.back() == '\t' || v[0] == '"' || v[0] == '\'' || v.find(" ;") != std::string::npos || v.find("\t;") != std::string::npos);
    if (need) return "\"" + v + "\"";
    if (plain) return v;
    switch (r.below(6)) { case 0: return "\"" + v + "\""; case 1: return "'" + v + "'"; default: return v; }
}

std::string CfgSpec::render(Rng &r, bool plain) const {
    std::vector<std::pair<std::string, std::string>> kv;
    if (has_format) kv.push_back({"message_format", format});
    if (has_chain) kv.push_back({"filter_chain", chain});
    if (has_output) kv.push_back({"output", output});
    if (has_facility) kv.push_back({"syslog_facility", facility});
    if (has_level) kv.push_back({"syslog_level", level});
    if (has_ident) kv.push_back({"syslog_ident", ident});
    if (has_errlog) kv.push_back({"error_logging", errlog});
    if (has_dsmax) kv.push_back({"datasource_message_max_length", dsmax});
    if (has_logmax) kv.push_back({"log_message_max_length", logmax});
    if (!plain) for (size_t i = kv.size(); i > 1; i--) std::swap(kv[i - 1], kv[r.below(i)]);
    std::string s;
    if (!plain && r.chance(1, 10)) s += "\xEF\xBB\xBF";
    if (!plain && r.chance(1, 4)) s += "; generated configuration\n";
    s += "[snoopy]\n";
    for (auto &p : kv) {
        if (!plain && r.chance(1, 8)) s += "# comment with message_format = bogus\n";
        if (!plain && r.chance(1, 10)) s += "\n";
        std::string sep = plain ? " = " : (r.chance(1, 5) ? ":" : r.chance(1, 3) ? "=" : " = ");
        if (sep == ":" && p.second.empty()) sep = " = ";
        if (!p.second.empty() && p.second[0] == ';') sep = "=";   // " ;" would start an inline comment
        s += p.first + sep + quote_if_needed(r, p.second, plain) + "\n";
    }
    if (!plain && r.chance(1, 6)) s += "[other]\nmessage_format = not-this-one\noutput = stderr\n";
    return s;
}

std::string gen_output_value(Rng &r, const World &w, int *cls) {
    (void)w;
    int c = (int)r.below(12);
    if (cls) *cls = c;
    switch (c) {
    case 0: return "devlog";
    case 1: return "stdout";
    case 2: return "stderr";
    case 3: return "devnull";
    case 4: return "devtty";
    case 5: return "socket:/run/snoopy-" + std::to_string(r.below(3)) + ".sock";
    case 6: return "file:/var/log/snoopy.log";
    case 7: return "file:/log/%{snoopy_literal:part}-%{uid}.log";
    case 8: return "file:/log/snoopy-%{datetime:%Y-%m-%d}.log";
    case 9: return "file";
    case 10: return "bogusoutput" + std::string(r.chance(1, 2) ? ":arg" : "");
    default: return "file:/log/" + gen_token(r, 1, 40, 0);
    }
}

Op op_setconfig(const std::string &bytes) { Op o; o.op = "SetConfig"; o.cfg_mode = 0; o.cfg = bytes; return o; }
Op op_exec(const ExecOp &e) { Op o; o.op = "Exec"; o.ex = e; return o; }
