// Fault enumeration: C03 (logging failures never block, signal or abort the exec) and
// C16 (no residue), both over the census of intercepted calls of a fault-free run.
#include "checks_common.hpp"
#include <errno.h>

struct FaultSpec { const char *kind; std::vector<int> errs; bool has_short, has_eof; };
static const std::vector<FaultSpec> &fault_table() {
    static const std::vector<FaultSpec> t = {
        {"open", {ENOENT, EACCES, EMFILE, ENFILE, ENOMEM, ELOOP, ENOTDIR, EISDIR, EROFS, ENXIO, ENOSPC}, false, false},
        {"read", {EIO, EINTR}, true, true},
        {"write", {ENOSPC, EIO, EDQUOT, EFBIG, EINTR}, true, false},
        {"close", {EIO, ENOSPC}, false, false},
        {"socket", {EMFILE, ENFILE, ENOBUFS, EAFNOSUPPORT, ENOMEM, EACCES}, false, false},
        {"connect", {ENOENT, ECONNREFUSED, EACCES, EAGAIN, EPROTOTYPE}, false, false},
        {"send", {EAGAIN, ECONNREFUSED, ENOTCONN, EMSGSIZE, ENOBUFS, EPIPE, ECONNRESET}, false, false},
        {"stat", {ENOENT, EACCES}, false, false},
        {"ttyname_r", {EBADF, ENOTTY, ERANGE, ENODEV}, false, false},
        {"getcwd", {ENOENT, ERANGE, EACCES}, false, false},
        {"gethostname", {ENAMETOOLONG, EFAULT}, false, false},
        {"getlogin_r", {ENXIO, ENOTTY, ENOENT}, false, false},
        {"getpwuid_r", {EIO, EINTR, EMFILE, ENOMEM, ERANGE}, false, false},
        {"getgrgid_r", {EIO, EINTR, EMFILE, ENOMEM, ERANGE}, false, false},
        {"getutline_r", {ENOENT, EACCES, EIO, EINTR}, false, false},
        {"time", {EOVERFLOW}, false, false},
        {"gettimeofday", {EFAULT}, false, false},
    };
    return t;
}
static const FaultSpec *spec_of(const std::string &k) { for (auto &f : fault_table()) if (k == f.kind) return &f; return nullptr; }

// all single faults of one operation, from the census of a fault-free run
static std::vector<Fault> single_faults(const RunResult &census, int opi, int *ncalls = nullptr) {
    std::vector<Fault> out; std::map<std::string, int> cnt; int calls = 0;
    for (auto &e : census.hist) {
        if (e.opi != opi) continue;
        const FaultSpec *fs = spec_of(e.k);
        if (!fs) continue;
        int nth = cnt[e.k]++; calls++;
        for (int er : fs->errs) { Fault f; f.kind = e.k; f.nth = nth; f.err = er; out.push_back(f); }
        if (fs->has_short) { Fault f; f.kind = e.k; f.nth = nth; f.special = 1; out.push_back(f); }
        if (fs->has_eof) { Fault f; f.kind = e.k; f.nth = nth; f.special = 2; out.push_back(f); }
    }
    if (ncalls) *ncalls = calls;
    return out;
}

static const char *ALL_DS_FORMATS[] = {
    "%{uid} %{euid} %{gid} %{egid} %{username} %{eusername} %{group} %{egroup} %{pid} %{ppid} %{sid} %{tid} %{tid_kernel}",
    "%{cwd} %{hostname} %{domain} %{tty} %{tty_uid} %{tty_username} %{ipaddr} %{login}",
    "%{cgroup:name=systemd} %{cgroup:0} %{systemd_unit_name} %{rpname} %{env:PATH} %{env_all}",
    "%{datetime} %{datetime:%s} %{timestamp} %{timestamp_ms} %{timestamp_us} %{filename} %{cmdline} %{snoopy_version} %{snoopy_literal:x}",
    "[uid:%{uid} sid:%{sid} tty:%{tty} cwd:%{cwd} filename:%{filename}]: %{cmdline}",
};
static const char *SINK_OUTPUTS[] = {"file:/var/log/snoopy.log", "file:/log/snoopy-%{datetime:%Y-%m-%d}-%{username}.log", "devtty", "devnull", "stdout", "stderr", "socket:/run/snoopy-0.sock", "devlog", "nosuchoutput", "file:/nodir/x.log", "file"};

// base scenario (world, config, call) of a fault-enumeration family; `sinkstate` picks the state of the log destination
static void fe_scenario(Rng &r, Plan &p, ExecOp &e, std::string *desc) {
    p.world = gen_world(r);
    World &w = p.world;
    w.socks["/run/snoopy-0.sock"] = SockNode();
    int oi = (int)r.below(11), fi = (int)r.below(5);
    CfgSpec s; s.has_output = true; s.output = SINK_OUTPUTS[oi]; s.has_format = true; s.format = ALL_DS_FORMATS[fi];
    if (r.chance(1, 3)) { s.has_chain = true; s.chain = r.chance(1, 2) ? "exclude_spawns_of:nosuchprog,cron;only_uid:" + std::to_string(w.uid) : "exclude_uid:1;exclude_spawns_of:zzz"; }
    if (r.chance(1, 3)) { s.has_ident = true; s.ident = "snoopy-%{username}-%{tty}"; }
    if (r.chance(1, 4)) { s.has_errlog = true; s.errlog = "yes"; }
    int sinkstate = (int)r.below(9);
    switch (sinkstate) {
    case 0: break;                                                          // healthy
    case 1: w.files.erase("/var/log"); w.files.erase("/log"); break;        // directory absent
    case 2: w.files["/var/log"].open_errno = EACCES; w.files["/log"].open_errno = EACCES; { FileNode f; f.open_errno = EACCES; w.files["/var/log/snoopy.log"] = f; } break; // no permission
    case 3: w.disk_free = (int64_t)r.below(3) * 20; break;                  // full / nearly full disk: ENOSPC at the first or second write
    case 4: w.socks.erase("/dev/log"); w.socks.erase("/run/snoopy-0.sock"); break; // socket path absent
    case 5: w.socks["/dev/log"].state = 1; w.socks["/run/snoopy-0.sock"].state = 1; break; // nobody bound
    case 6: w.socks["/dev/log"].state = 2; w.socks["/run/snoopy-0.sock"].state = 2; break; // no permission
    case 7: w.socks["/dev/log"].queued = w.socks["/dev/log"].capacity; w.socks["/run/snoopy-0.sock"].queued = 10; break; // queue full and unread
    default: w.socks["/dev/log"].state = 3; w.has_ctty = false; break;      // stream-type /dev/log; no controlling tty
    }
    // the log file has (nearly) reached the caller's own file size limit (ulimit -f): "full" for this process only
    if (oi <= 1 && r.chance(1, 3)) { w.disk_free = -1; w.files["/var/log"].kind = 1; w.files["/var/log"].open_errno = 0; w.files["/log"].kind = 1; w.files["/log"].open_errno = 0; FileNode f; f.content = oi == 0 ? std::string((size_t)r.range(0, 3) * 50, 'x') : ""; if (oi == 0) w.files["/var/log/snoopy.log"] = f; w.fsize_limit = (long long)f.content.size() + (long long)r.below(3) * 30; sinkstate = 9; }
    p.ops.push_back(op_setconfig(s.render(r, true)));
    e = gen_exec(r, "f_", (int)r.below(2));
    gen_outcome(r, e, true);
    if (desc) *desc = std::string(SINK_OUTPUTS[oi]).substr(0, std::string(SINK_OUTPUTS[oi]).find(':')) + "/f" + std::to_string(fi) + "/s" + std::to_string(sinkstate);
}

#define FE_SLOTS 400
static Plan gen_fault_enum(const char *prop, uint64_t seed, int repeats) {
    uint64_t base = seed / FE_SLOTS; int slot = (int)(seed % FE_SLOTS);
    Rng r(base * 1000003 + 103);
    Plan p; p.property = prop; p.seed = seed;
    ExecOp e; std::string desc;
    fe_scenario(r, p, e, &desc);
    if (repeats > 1) e.success = false;
    // census of the fault-free call (deterministic, in-process)
    Plan cp = p; cp.ops.push_back(op_exec(e));
    RunResult census = sim_run(cp);
    int ncalls = 0;
    std::vector<Fault> F = single_faults(census, 0, &ncalls);
    p.extra.set("census_steps", census.obs.empty() ? 0 : census.obs[0].steps);
    p.extra.set("census_calls", ncalls); p.extra.set("single_faults", (long)F.size()); p.extra.set("scenario", desc);
    p.extra.set("enumeration_complete", (long)F.size() <= FE_SLOTS - 1);
    if (slot == 0 || F.empty()) { p.extra.set("fault", "none"); }
    else if ((size_t)slot <= F.size()) { e.faults.push_back(F[(size_t)slot - 1]); p.extra.set("fault", "single"); }
    else {   // sampled pairs, and single faults that persist (every later call of the kind fails too)
        Rng pr(seed * 7919 + 17);
        Fault a = F[pr.below(F.size())], b = F[pr.below(F.size())];
        if (pr.chance(1, 2) && a.err) { a.sticky = true; e.faults.push_back(a); p.extra.set("fault", "persistent"); }
        else { e.faults.push_back(a); if (!(a.kind == b.kind && a.nth == b.nth)) e.faults.push_back(b); p.extra.set("fault", "pair"); }
    }
    for (int i = 0; i < repeats; i++) p.ops.push_back(op_exec(e));
    return p;
}

// ------------------------------------------------------------------ C03
static Plan gen_c03(uint64_t seed, const std::string &) {
    Plan p = gen_fault_enum("C03", seed, 1);
    // a failure must not leave anything behind that stops a later exec of the same process either (PATH walk after ENOENT, vfork launcher):
    // when the faulted call returns to its caller, the same call is made once more without the fault
    if (!p.ops.empty() && p.ops.back().op == "Exec" && !p.ops.back().ex.success && !p.ops.back().ex.faults.empty()) { Op again = p.ops.back(); again.ex.faults.clear(); p.ops.push_back(again); }
    return p;
}
static Verdict oracle_c03(const Plan &p, const RunResult &r) {
    long census = p.extra.geti("census_steps");
    for (auto &cv : calls_of(p)) {
        const ExecObs *o = obs_of(r, cv.opi); if (!o) return bad("exec-not-reached", "no observation");
        for (auto &e : r.hist) if (e.opi == cv.opi) {
            if (e.mark & MARK_BLOCKS) return bad("would-block:" + e.k, "'" + e.k + "' " + e.s + " would block the caller (flags " + std::to_string(e.c) + ")");
            if (e.mark & MARK_SIGPIPE) return bad("would-signal:SIGPIPE", "'" + e.k + "' on " + e.s + " would raise SIGPIPE");
            if (e.mark & MARK_SIGXFSZ) return bad("would-signal:SIGXFSZ", "'" + e.k + "' on " + e.s + " starts at the process's file size limit (RLIMIT_FSIZE): the kernel raises SIGXFSZ, whose default action ends the caller before the real exec");
        }
        Verdict v = passthrough_oracle(*cv.op, *o, r);
        if (v.violated) return v;
        if (o->steps > 4 * census + 64) return bad("retry-loop", std::to_string(o->steps) + " intercepted calls under a fault; the fault-free call makes " + std::to_string(census));
    }
    return ok();
}
static Verdict abort_c03(const Plan &, const RunResult &r) { return bad(r.abort_class == "hang" ? "hang" : r.abort_class, r.abort_detail); }
static void describe_fe(const Plan &p, const RunResult &r, J &line) {
    std::string sig = p.extra.gets("scenario") + "|" + p.extra.gets("fault");
    bool fired = false;
    for (auto &o : r.obs) for (auto &f : o.fired) { fired = true; sig += "|" + f.kind + "#" + std::to_string(f.nth) + ":" + (f.special ? (f.special == 1 ? "short" : "eof") : std::to_string(f.err)); }
    line.set("sig", sig); line.set("nontrivial", fired || p.extra.gets("fault") == "none");
    if (p.extra.gets("fault") == "none") { line.set("p_census", true); line.set("census_calls", p.extra.geti("census_calls")); line.set("single_faults", p.extra.geti("single_faults")); line.set("enum_complete", p.extra.getb("enumeration_complete")); }
    if (p.extra.gets("fault") == "pair") line.set("p_pair", true);
    if (p.extra.gets("fault") == "persistent") line.set("p_persistent_fault", true);
    for (auto &kv : r.counters) { if (kv.first == "queue-full") line.set("p_queue_full", true); if (kv.first == "eagain-seen") line.set("p_eagain_seen", true); if (kv.first == "enospc" || kv.first == "enospc-partial") line.set("p_enospc", true); }
}
static Reg reg_c03({"C03", gen_c03, oracle_c03, abort_c03, describe_fe});

// ------------------------------------------------------------------ C16
static Plan gen_c16(uint64_t seed, const std::string &tier) {
    // 3 of 4 families enumerate faults over a warm-up + 3 calls; the 4th repeats a fault-free call up to 200 times
    // with configurations that contain duplicate and invalid options
    if ((seed / FE_SLOTS) % 4 != 3) return gen_fault_enum("C16", seed, 4);
    Rng r(seed * 1000003 + 116);
    if (g_thread_safe_build && (seed % 4 == 1 || seed % 4 == 2)) {
        // the calling process is more than the calling thread: while two or three of its threads make wrapped calls, another one opens and
        // closes descriptors of its own and must find every one of them as it left it (sink states as in the fault families)
        Plan p; p.property = "C16"; p.seed = seed; ExecOp e; std::string desc;
        fe_scenario(r, p, e, &desc);
        if (p.world.stdout_kind == 3) p.world.stdout_kind = 0;
        e.success = false; e.faults.clear();
        if (r.chance(3, 4)) {   // mostly the outputs that own a descriptor, half of the time with a sink that refuses the record
            World &w = p.world; CfgSpec s2; s2.has_output = true; s2.has_format = true; s2.format = ALL_DS_FORMATS[4];
            int oc = (int)r.below(10); s2.output = oc < 4 ? "socket:/run/snoopy-0.sock" : oc < 6 ? "devlog" : oc < 9 ? "file:/var/log/snoopy.log" : "devtty";
            w.socks["/run/snoopy-0.sock"] = SockNode(); w.socks["/dev/log"] = SockNode(); w.files["/var/log"].kind = 1; w.files["/var/log"].open_errno = 0;
            if (r.chance(1, 2)) { w.socks["/run/snoopy-0.sock"].queued = w.socks["/run/snoopy-0.sock"].capacity; w.socks["/dev/log"].queued = w.socks["/dev/log"].capacity; w.disk_free = 0; }
            p.ops.clear(); p.ops.push_back(op_setconfig(s2.render(r, true)));
            desc = s2.output.substr(0, s2.output.find(':')) + "/threads";
        }
        Op b; b.op = "Batch"; int nt = (int)r.range(2, 3);
        for (int t = 0; t < nt; t++) { std::vector<ExecOp> calls((size_t)r.range(1, 2), e); b.threads.push_back(calls); }
        if (r.chance(1, 2)) { static const char *k[] = {"send", "write", "connect", "close", "open", "read"}; Fault f; f.kind = k[r.below(6)]; f.nth = (int)r.below(2); f.err = r.chance(1, 2) ? 11 : 5; b.threads[0][0].faults.push_back(f); }
        b.policy = 0; b.sched_seed = r.next(); b.app_opens = (int)r.range(6, 24);
        p.ops.push_back(b);
        p.extra.set("scenario", "threads|" + desc); p.extra.set("fault", "none");
        return p;
    }
    Plan p; p.property = "C16"; p.seed = seed; p.world = gen_world(r);
    World &w = p.world; w.socks["/run/snoopy-0.sock"] = SockNode();
    std::string cfg = gen_known_config(r, w);
    // duplicate / invalid options
    static const char *dups[] = {"message_format = first %{uid}\n", "filter_chain = only_uid:0\n", "output = file:/log/dup.log\n", "syslog_ident = dup-%{uid}\n", "output = socket:/run/snoopy-0.sock\n",
        "syslog_facility = nonsense\n", "error_logging = maybe\n", "datasource_message_max_length = x\n", "filter_chain = exclude_spawns_of:\n", "filter_chain = exclude_spawns_of:,\n", "filter_chain = only_uid:;exclude_uid:\n", "output = stdout:arg\n", "half edited line\n", "[snoopy\n", "syslog_ident\n"};
    int nd = (int)r.range(1, 4);
    for (int i = 0; i < nd; i++) cfg += dups[r.below(15)];
    if (r.chance(1, 2)) cfg += "message_format = last %{cmdline} %{rpname} %{tty_username} %{cgroup:0}\n";
    p.ops.push_back(op_setconfig(cfg));
    ExecOp e = gen_exec(r, "r_", (int)r.below(2)); e.success = false;
    int n = 1 + (int)(tier == "thorough" ? r.range(2, 200) : r.range(2, 40));
    for (int i = 0; i < n; i++) p.ops.push_back(op_exec(e));
    p.extra.set("scenario", "repeat"); p.extra.set("fault", "none"); p.extra.set("repeats", n);
    return p;
}
static std::string fds_str(const std::vector<int> &v) { std::string s; for (int f : v) s += std::to_string(f) + ","; return s; }
static Verdict residue(const std::string &at, const Snap &a, const Snap &b, bool heap_zero_expected, const Snap *warm) {
    if (a.sim_fds != b.sim_fds) return bad("fd-leak", at + "open descriptors [" + fds_str(b.sim_fds) + "] instead of [" + fds_str(a.sim_fds) + "]");
    if (a.real_fds != b.real_fds) return bad("fd-leak", at + "real descriptors " + b.real_fds + " instead of " + a.real_fds);
    if (a.env_sum != b.env_sum) return bad("environment-changed", at + "environ differs");
    if (a.cwd != b.cwd) return bad("cwd-changed", at + "working directory " + b.cwd + " instead of " + a.cwd);
    if (a.umask_v != b.umask_v) return bad("umask-changed", at + "umask changed");
    if (a.stream_locks != b.stream_locks) return bad("stream-lock-held", at + "the lock of the caller's " + std::string((b.stream_locks & ~a.stream_locks) & 1 ? "stdout" : "stderr") + " stream is held (flockfile without funlockfile): every other thread of the caller that prints blocks for ever");
    if (a.locale != b.locale) return bad("locale-changed", at + "locale of the calling program is " + b.locale + " instead of " + a.locale);
    if (a.sig_sum != b.sig_sum) return bad("signals-changed", at + "signal mask or dispositions changed");
    if (heap_zero_expected && warm && b.lib_live_allocs > warm->lib_live_allocs)
        return bad("heap-retained", at + std::to_string(b.lib_live_allocs - warm->lib_live_allocs) + " more live allocations made by the library (" + std::to_string(b.lib_live_bytes - warm->lib_live_bytes) + " bytes) than after the warm-up call");
    return ok();
}
// libc functions that keep their result or position in one static object (strtok, getpwuid, localtime, ttyname, getlogin, ...): the caller
// may be in the middle of a strtok() walk or hold the pointer an earlier getpwuid() returned - a wrapped call that uses one of them
// destroys that, which is residue in the calling process even though no descriptor or byte of heap is left behind
Verdict libc_static_state(const RunResult &r) {
    for (auto &e : r.hist) if (e.k == "nonreentrant" && e.opi >= 0 && e.s.compare(0, 7, "setvbuf") == 0)
        return bad("libc-static-state-clobbered:" + e.s, "call #" + std::to_string(e.opi) + " reconfigures a standard stream of the calling program, " + e.s + ": the buffer and buffering mode of that stream are the caller's state (and a buffer lent to it must outlive every later use of the stream by the caller)");
    for (auto &e : r.hist) if (e.k == "nonreentrant" && e.opi >= 0)
        return bad("libc-static-state-clobbered:" + e.s, "call #" + std::to_string(e.opi) + " uses " + e.s + "(), whose state is one static object shared with the calling program: what the caller had there (position of its own strtok walk, the record an earlier call returned) is gone after the wrapped call");
    return ok();
}
static Verdict oracle_c16(const Plan &p, const RunResult &r) {
    if (g_variant[0] != 'a') return ok();
    { Verdict ls = libc_static_state(r); if (ls.violated) return ls; }
    if (!r.app_damage.empty()) return bad("foreign-descriptor-closed", r.app_damage);
    if (p.extra.gets("scenario").compare(0, 8, "threads|") == 0) {   // descriptor tables and heap are shared between the threads: per call only what belongs to the calling thread is compared
        for (auto &cv : calls_of(p)) {
            const ExecObs *o = obs_of(r, cv.opi); if (!o) continue;
            if (o->real_calls < 1) return bad("exec-not-reached", "call #" + std::to_string(cv.opi) + ": real exec not reached");
            if (o->before.sig_sum != o->at_exec.sig_sum || o->before.sig_sum != o->after.sig_sum) return bad("signals-changed", "call #" + std::to_string(cv.opi) + ": signal mask or dispositions of the calling thread changed");
            if (o->before.env_sum != o->after.env_sum || o->before.cwd != o->after.cwd || o->before.umask_v != o->after.umask_v || o->before.locale != o->after.locale) return bad("process-state-changed", "call #" + std::to_string(cv.opi) + ": environment, working directory, umask or locale changed");
        }
        return ok();
    }
    const Snap *warm = nullptr;
    for (auto &cv : calls_of(p)) {
        const ExecObs *o = obs_of(r, cv.opi); if (!o) continue;
        std::string at = "call #" + std::to_string(cv.opi) + ": ";
        if (o->real_calls < 1) return bad("exec-not-reached", at + "real exec not reached");
        if (cv.opi == 0) { warm = &o->after;   // warm-up call: descriptors and process state are judged, one-time allocations tolerated
            Verdict v = residue(at + "at exec: ", o->before, o->at_exec, false, nullptr); if (v.violated) return v;
            if (o->returned) { v = residue(at + "after return: ", o->before, o->after, false, nullptr); if (v.violated) return v; }
            continue; }
        Verdict v = residue(at + "at exec: ", o->before, o->at_exec, true, warm); if (v.violated) return v;
        if (o->returned) { v = residue(at + "after return: ", o->before, o->after, true, warm); if (v.violated) return v; }
    }
    return ok();
}
static void describe_c16(const Plan &p, const RunResult &r, J &line) {
    describe_fe(p, r, line);
    if (p.extra.gets("scenario").compare(0, 8, "threads|") == 0) { line.set("sig", p.extra.gets("scenario") + "|" + std::to_string(r.sched_points / 20)); line.set("nontrivial", r.max_overlap >= 1); line.set("p_application_thread", true); }
    if (p.extra.gets("scenario") == "repeat") { line.set("sig", "repeat|" + std::to_string(p.extra.geti("repeats") / 10) + "|" + std::to_string(fnv(p.ops[0].cfg) % 997)); line.set("nontrivial", true); line.set("p_repeat", true); if (p.extra.geti("repeats") >= 100) line.set("p_repeat_ge_100", true); }
    if (p.ops[0].cfg.find("first %{uid}") != std::string::npos || p.ops[0].cfg.find("dup-%{uid}") != std::string::npos) line.set("p_duplicate_option", true);
}
static Reg reg_c16({"C16", gen_c16, oracle_c16, abort_c03, describe_c16});
