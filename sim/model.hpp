// Executable reference model of snoopy's documented behaviour (DESIGN Appendix A).
// Written from etc/snoopy.ini.in, doc/*.md and the property statements.
#pragma once
#include "sim.hpp"

struct MCfg {
    std::string message_format, filter_chain, output = "devlog", output_arg, ident = "snoopy";
    bool error_logging = false; bool error_logging_ambiguous = false;
    int facility = 10 << 3 /*LOG_AUTHPRIV*/, level = 6 /*LOG_INFO*/;
    long dsmax = 2047, logmax = 16383;
    int assigned = 0;                     // number of [snoopy] options assigned from the file
    std::set<std::string> features;       // syntax features met (evidence)
};
extern const char *MODEL_DEFAULT_FORMAT;
MCfg model_config(const World &w);       // from the config file as it is in this world (absent/unreadable -> defaults)
MCfg model_parse_ini(const std::string &bytes);
long model_bytelen(const std::string &text, long dflt);
int model_facility(const std::string &v, int dflt);
int model_level(const std::string &v, int dflt);
const char *model_facility_name(int f);
const char *model_level_name(int l);
J model_conf_report(const MCfg &c);      // what `snoopyctl conf` should print per option

struct CallCtx {                          // everything a data source may look at
    const World *w = nullptr;
    const ExecOp *op = nullptr;
    std::vector<int64_t> clock_s, clock_us; // values the simulated clock returned during this call, in order
    size_t clock_cursor = 0;
    unsigned long self_tid = 0; int thr = 0;
    int threads_lo = 1, threads_hi = 1;  // acceptable %{snoopy_threads}
};

struct DsVal {
    bool known = true, failed = false, modelled = true;
    std::string text;
    std::vector<std::string> alts;        // other acceptable texts (placeholders the documentation leaves open)
};
DsVal model_ds(const std::string &name, const std::string &arg, CallCtx &c);

struct Expansion {
    std::vector<std::string> texts;       // acceptable results when `exact`
    bool exact = true;                    // false: some piece was cut or the total exceeds the limit -> only bounds are asserted
    bool modelled = true;                 // false: uses a data source outside the model
    std::string full;                     // untruncated expansion (first alternative)
    int tags = 0, cut = 0;
    std::string shape;                    // token classes, for evidence signatures
    // the expansion piece by piece: fixed text (literals, values that fit) and cut values (text = the full value, of which a
    // prefix of at most datasource_message_max_length bytes may appear); segs_ok = the structure is unambiguous
    struct Seg { bool variable; std::string text; };
    std::vector<Seg> segs; bool segs_ok = true; long cut_total = 0;
};
Expansion model_expand(const std::string &fmt, long dsmax, long total_max, CallCtx &c);

bool model_filter_chain(const std::string &chain, const World &w, int *known_filters = nullptr, std::string *shape = nullptr);

struct Expected {
    bool log = false;                     // a record is expected
    bool decided = true;                  // false: outcome not fixed by the documentation (sink unusable etc.)
    std::string sink;                     // "file:<path>" "sock:<path>" "stdout" "stderr" "tty" "null" "none"
    std::vector<std::string> records;     // acceptable framed records
    bool exact = true, modelled = true;
    bool sink_usable = true;              // sink exists and accepts the write in the fault-free world
    std::string why;
    Expansion msg;
    MCfg cfg;
    bool filtered = false;
};
Expected model_call(const World &w, const ExecOp &op, CallCtx &c);

// shared, deliberately trivial world transitions (used by the simulator and by the oracles)
void apply_setconfig(World &w, const Op &op);
void apply_mutate(World &w, const J &patch);
CallCtx make_ctx(const World &w, const ExecOp &op, const RunResult &r, int opi);
