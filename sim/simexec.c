/* libsimexec.so — stands where dlsym(RTLD_NEXT, "execv"/"execve") inside
 * libsnoopy.so resolves (it is linked right after libsnoopy). It hands every
 * call to the recorder that lives in the harness executable. */
#include <errno.h>
#include <stddef.h>

extern int sim_exec_cb(int api, const char *path, char *const argv[], char *const envp[]) __attribute__((weak));

__attribute__((visibility("default"))) int execv(const char *path, char *const argv[])
{
    if (!sim_exec_cb) { errno = ENOSYS; return -1; }
    return sim_exec_cb(0, path, argv, NULL);
}

__attribute__((visibility("default"))) int execve(const char *path, char *const argv[], char *const envp[])
{
    if (!sim_exec_cb) { errno = ENOSYS; return -1; }
    return sim_exec_cb(1, path, argv, envp);
}

/* other members of the family, should a change of the library start using them */
__attribute__((visibility("default"))) int execvp(const char *path, char *const argv[])
{
    if (!sim_exec_cb) { errno = ENOSYS; return -1; }
    return sim_exec_cb(2, path, argv, NULL);
}
__attribute__((visibility("default"))) int execvpe(const char *path, char *const argv[], char *const envp[])
{
    if (!sim_exec_cb) { errno = ENOSYS; return -1; }
    return sim_exec_cb(3, path, argv, envp);
}
__attribute__((visibility("default"))) int fexecve(int fd, char *const argv[], char *const envp[])
{
    (void)fd;
    if (!sim_exec_cb) { errno = ENOSYS; return -1; }
    return sim_exec_cb(4, "<fexecve>", argv, envp);
}
