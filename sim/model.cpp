// Reference model (DESIGN Appendix A). Independent of the implementation's code:
// nothing here includes or calls into a2o/snoopy.
#include "model.hpp"
#include <arpa/inet.h>
#include <string.h>
#include "core.hpp"
#include <ctype.h>
#include <string.h>

const char *MODEL_DEFAULT_FORMAT = "[uid:%{uid} sid:%{sid} tty:%{tty} cwd:%{cwd} filename:%{filename}]: %{cmdline}";

// ------------------------------------------------------------------ A.1 INI
static bool sp(unsigned char c) { return c == ' ' || c == '\t' || c == '\n' || c == '\v' || c == '\f' || c == '\r'; }
static std::string rstrip(std::string s) { while (!s.empty() && sp((unsigned char)s.back())) s.pop_back(); return s; }
static std::string lskip(const std::string &s) { size_t i = 0; while (i < s.size() && sp((unsigned char)s[i])) i++; return s.substr(i); }
// position of the first char of `chars`, or of an inline comment (';' after white space), or npos
static size_t find_chars_or_comment(const std::string &s, const char *chars) {
    bool was_space = false;
    for (size_t i = 0; i < s.size(); i++) {
        if (chars && strchr(chars, s[i])) return i;
        if (was_space && s[i] == ';') return i;
        was_space = sp((unsigned char)s[i]);
    }
    return std::string::npos;
}

static const struct { const char *n; int v; } FAC[] = {
    {"AUTH", 4 << 3}, {"AUTHPRIV", 10 << 3}, {"CRON", 9 << 3}, {"DAEMON", 3 << 3}, {"FTP", 11 << 3}, {"KERN", 0}, {"LOCAL0", 16 << 3}, {"LOCAL1", 17 << 3},
    {"LOCAL2", 18 << 3}, {"LOCAL3", 19 << 3}, {"LOCAL4", 20 << 3}, {"LOCAL5", 21 << 3}, {"LOCAL6", 22 << 3}, {"LOCAL7", 23 << 3}, {"LPR", 6 << 3},
    {"MAIL", 2 << 3}, {"NEWS", 7 << 3}, {"SYSLOG", 5 << 3}, {"USER", 1 << 3}, {"UUCP", 8 << 3}};
static const struct { const char *n; int v; } LEV[] = {{"EMERG", 0}, {"ALERT", 1}, {"CRIT", 2}, {"ERR", 3}, {"WARNING", 4}, {"NOTICE", 5}, {"INFO", 6}, {"DEBUG", 7}};
static std::string upper_nolog(const std::string &v) {
    std::string u = v;
    for (auto &c : u) if (c >= 'a' && c <= 'z') c = (char)(c - 32);
    if (u.compare(0, 4, "LOG_") == 0) u = u.substr(4);
    return u;
}
int model_facility(const std::string &v, int dflt) { std::string u = upper_nolog(v); for (auto &f : FAC) if (u == f.n) return f.v; return dflt; }
int model_level(const std::string &v, int dflt) { std::string u = upper_nolog(v); for (auto &l : LEV) if (u == l.n) return l.v; return dflt; }
const char *model_facility_name(int f) { for (auto &e : FAC) if (e.v == f) return e.n; return "(invalid)"; }
const char *model_level_name(int l) { for (auto &e : LEV) if (e.v == l) return e.n; return "(invalid)"; }

long model_bytelen(const std::string &t, long dflt) {
    size_t i = 0; unsigned long long n = 0; bool any = false;
    while (i < t.size() && t[i] >= '0' && t[i] <= '9') { any = true; if (n < 100000000000000000ULL) n = n * 10 + (unsigned)(t[i] - '0'); else n = 1000000000000000000ULL; i++; }
    if (!any || n == 0) return dflt;
    unsigned long long f = 1;
    if (i < t.size() && (t[i] == 'k' || t[i] == 'K')) f = 1024;
    else if (i < t.size() && (t[i] == 'm' || t[i] == 'M')) f = 1048576;
    unsigned long long r = n > 2000000000000ULL ? 2000000000000ULL * f : n * f;
    if (r < 255) r = 255;
    if (r > 1048575) r = 1048575;
    return (long)r;
}

static const char *OUTPUTS[] = {"devlog", "devnull", "devtty", "file", "socket", "stderr", "stdout", "noop"};
static bool known_output(const std::string &n) { for (auto o : OUTPUTS) if (n == o) return true; return false; }

static void assign(MCfg &c, const std::string &name, const std::string &value) {
    if (name == "message_format") c.message_format = value;
    else if (name == "filter_chain") c.filter_chain = value;
    else if (name == "syslog_ident") c.ident = value;
    else if (name == "error_logging") {
        char f = value.empty() ? 0 : value[0];
        if (f && strchr("yYtT1", f)) { c.error_logging = true; c.error_logging_ambiguous = false; }
        else if (f && strchr("nNfF0", f)) { c.error_logging = false; c.error_logging_ambiguous = false; }
        else { c.error_logging_ambiguous = true; c.features.insert("garbage-bool"); }
    } else if (name == "output") {
        size_t k = value.find(':');
        std::string n = k == std::string::npos ? value : value.substr(0, k), a = k == std::string::npos ? "" : value.substr(k + 1);
        if (known_output(n)) { c.output = n; c.output_arg = a; } else { c.output = "devlog"; c.output_arg = ""; c.features.insert("unknown-output"); }
    } else if (name == "syslog_facility") { c.facility = model_facility(value, 10 << 3); }
    else if (name == "syslog_level") { c.level = model_level(value, 6); }
    else if (name == "datasource_message_max_length") c.dsmax = model_bytelen(value, 2047);
    else if (name == "log_message_max_length") c.logmax = model_bytelen(value, 16383);
    else { c.features.insert("unknown-key"); return; }
    c.assigned++;
}

MCfg model_parse_ini(const std::string &bytes) {
    MCfg c; c.message_format = MODEL_DEFAULT_FORMAT;
    std::string section, prev; std::set<std::string> seen;
    size_t pos = 0; int lineno = 0;
    while (pos < bytes.size()) {
        size_t nl = bytes.find('\n', pos);
        std::string raw = nl == std::string::npos ? bytes.substr(pos) : bytes.substr(pos, nl - pos + 1);
        pos = nl == std::string::npos ? bytes.size() : nl + 1;
        lineno++;
        std::string line = raw;
        if (lineno == 1 && line.size() >= 3 && (unsigned char)line[0] == 0xEF && (unsigned char)line[1] == 0xBB && (unsigned char)line[2] == 0xBF) { line = line.substr(3); c.features.insert("bom"); }
        line = rstrip(line);
        std::string start = lskip(line);
        bool indented = start.size() != line.size();
        if (start.empty() || start[0] == ';' || start[0] == '#') { if (!start.empty()) c.features.insert("comment-line"); continue; }
        if (!prev.empty() && indented) {   // continuation: assigned as is
            c.features.insert("continuation");
            if (section == "snoopy") assign(c, prev.substr(0, 49), start);
            continue;
        }
        if (start[0] == '[') {
            size_t e = find_chars_or_comment(start.substr(1), "]");
            if (e != std::string::npos && start[1 + e] == ']') { section = start.substr(1, e).substr(0, 49); prev.clear(); if (section != "snoopy") c.features.insert("other-section"); }
            continue;
        }
        size_t e = find_chars_or_comment(start, "=:");
        if (e == std::string::npos || (start[e] != '=' && start[e] != ':')) continue;
        if (start[e] == ':') c.features.insert("colon-separator");
        std::string name = rstrip(start.substr(0, e)), value = start.substr(e + 1);
        size_t cm = find_chars_or_comment(value, nullptr);
        if (cm != std::string::npos) { value = value.substr(0, cm); c.features.insert("inline-comment"); }
        value = rstrip(lskip(value));
        if (!value.empty() && value[0] == '"' && value.back() == '"') { value = value.size() >= 2 ? value.substr(1, value.size() - 2) : ""; c.features.insert("quotes"); }
        else if (!value.empty() && value[0] == '\'' && value.back() == '\'') { value = value.size() >= 2 ? value.substr(1, value.size() - 2) : ""; c.features.insert("quotes"); }
        prev = name;
        if (section == "snoopy") {
            if (seen.count(name)) c.features.insert("duplicate-key");
            seen.insert(name);
            assign(c, name, value);
        }
    }
    return c;
}

MCfg model_config(const World &w) {
    auto it = w.files.find(SIM_CONFIG_PATH);
    if (it == w.files.end() || it->second.open_errno || it->second.kind != 0) { MCfg c; c.message_format = MODEL_DEFAULT_FORMAT; return c; }
    return model_parse_ini(it->second.content);
}

J model_conf_report(const MCfg &c) {
    J j = J::obj();
    j.set("error_logging", c.error_logging ? "yes" : "no");
    j.set("filter_chain", c.filter_chain); j.set("message_format", c.message_format);
    j.set("output", c.output_arg.empty() ? c.output : c.output + ":" + c.output_arg);
    j.set("syslog_facility", model_facility_name(c.facility)); j.set("syslog_ident", c.ident); j.set("syslog_level", model_level_name(c.level));
    j.set("datasource_message_max_length", std::to_string(c.dsmax)); j.set("log_message_max_length", std::to_string(c.logmax));
    return j;
}

// ------------------------------------------------------------------ A.3 filter chain
static std::vector<std::string> split(const std::string &s, char sep, bool keep_empty) {
    std::vector<std::string> v; std::string cur;
    for (char ch : s) { if (ch == sep) { if (keep_empty || !cur.empty()) v.push_back(cur); cur.clear(); } else cur.push_back(ch); }
    if (keep_empty || !cur.empty()) v.push_back(cur);
    return v;
}
static bool uid_in_list(uint32_t uid, const std::string &arg) {
    if (arg.empty()) return false;
    for (auto &it : split(arg, ',', true)) {
        // well-formed items are decimal; anything else is outside the property's domain
        unsigned long long v = strtoull(it.c_str(), nullptr, 10);
        if ((uint32_t)v == uid && !it.empty()) return true;
    }
    return false;
}
static bool ancestor_listed(const World &w, const std::string &arg) {
    std::vector<std::string> names = split(arg, ',', false);
    if (names.empty()) return false;
    int p = w.ppid; int guard = 0;
    while (p != 0 && guard++ < 64) {
        const Proc *pr = w.proc(p);
        if (!pr || pr->stat_errno) return false;          // unreadable -> pass
        for (auto &n : names) if (n == pr->comm) return true;
        p = pr->ppid;
    }
    return false;
}
bool model_filter_chain(const std::string &chain, const World &w, int *known, std::string *shape) {
    bool pass = true; int k = 0;
    for (auto &el : split(chain, ';', false)) {
        size_t c = el.find(':');
        std::string name = c == std::string::npos ? el : el.substr(0, c), arg = c == std::string::npos ? "" : el.substr(c + 1);
        bool r = true, is_known = true;
        if (name == "only_uid") r = uid_in_list(w.uid, arg);
        else if (name == "exclude_uid") r = !uid_in_list(w.uid, arg);
        else if (name == "only_root") r = w.uid == 0;
        else if (name == "only_tty") r = w.tty_state == 2;
        else if (name == "exclude_spawns_of") r = !ancestor_listed(w, arg);
        else if (name == "noop") r = true;
        else is_known = false;
        if (is_known) k++;
        if (shape) { *shape += is_known ? (name + (r ? "+" : "-")) : "?"; *shape += ";"; }
        if (is_known && !r) pass = false;
    }
    if (known) *known = k;
    return pass;
}

// ------------------------------------------------------------------ A.5 data sources
static const char *DS_NAMES[] = {"cgroup", "cmdline", "cwd", "datetime", "domain", "egid", "egroup", "env", "env_all", "euid", "eusername", "filename", "gid", "group", "hostname",
    "ipaddr", "login", "pid", "ppid", "rpname", "sid", "snoopy_configure_command", "snoopy_literal", "snoopy_threads", "snoopy_version", "systemd_unit_name", "tid", "tid_kernel",
    "timestamp", "timestamp_ms", "timestamp_us", "tty", "tty_uid", "tty_username", "uid", "username", "failure", "noop"};
static bool ds_known(const std::string &n) { for (auto d : DS_NAMES) if (n == d) return true; return false; }

static std::string env_lookup(const World &w, const std::string &name, bool &found) {
    found = false;
    if (w.environ_null || name.empty() || name.find('=') != std::string::npos) return "";
    for (auto &e : w.env) if (e.size() > name.size() && e.compare(0, name.size(), name) == 0 && e[name.size()] == '=') { found = true; return e.substr(name.size() + 1); }
    return "";
}
static DsVal user_name(const World &w, uint32_t id, bool documented_user_dash) {
    DsVal v; const IdName *n = w.pw(id);
    if (n) v.text = n->name;
    else { v.text = documented_user_dash ? "user-" + std::to_string((int)id) : "(undefined)"; v.alts = {"(undefined)", "user-" + std::to_string((int)id), "user-" + std::to_string(id)}; }
    return v;
}
static bool next_clock(CallCtx &c, int64_t &s, int64_t &us) {
    if (c.clock_cursor >= c.clock_s.size()) return false;
    s = c.clock_s[c.clock_cursor]; us = c.clock_us[c.clock_cursor]; c.clock_cursor++; return true;
}

DsVal model_ds(const std::string &name, const std::string &arg, CallCtx &c) {
    const World &w = *c.w; DsVal v;
    if (!ds_known(name)) { v.known = false; return v; }
    if (name == "uid") v.text = std::to_string(w.uid);
    else if (name == "euid") v.text = std::to_string(w.euid);
    else if (name == "gid") v.text = std::to_string(w.gid);
    else if (name == "egid") v.text = std::to_string(w.egid);
    else if (name == "username") v = user_name(w, w.uid, true);
    else if (name == "eusername") v = user_name(w, w.euid, false);
    else if (name == "group" || name == "egroup") { const IdName *n = w.gr(name == "group" ? w.gid : w.egid); if (n) v.text = n->name; else { v.text = "(undefined)"; } }
    else if (name == "pid") v.text = std::to_string(w.pid);
    else if (name == "ppid") v.text = std::to_string(w.ppid);
    else if (name == "sid") v.text = std::to_string(w.sid);
    else if (name == "tid") v.text = std::to_string(c.self_tid);
    else if (name == "tid_kernel") v.text = std::to_string(w.tid_kernel + c.thr);
    else if (name == "cwd") { if (w.cwd_errno || w.cwd.size() > 4096) { v.failed = true; v.text = ""; } else v.text = w.cwd; }   // PATH_MAX is what the documentation promises; a longer one is reported as a failure
    else if (name == "hostname") v.text = w.hostname;
    // a process that runs with descriptor 0 closed: while another thread of it has a file or socket open, that one sits on descriptor 0
    // (lowest free number) and the answer for it is "not a terminal" - the descriptor table is shared, both answers are true to the state
    else if (name == "tty") { v.text = w.tty_state == 2 ? w.tty_path : w.tty_state == 0 ? "(none)" : "ERROR(ttyname_r->EBADF)"; if (w.tty_state == 1 && c.threads_hi > 1) v.alts.push_back("(none)"); }
    else if (name == "tty_uid" || name == "tty_username") {
        if (w.tty_state == 0) v.text = "(none)";
        else if (w.tty_state == 1) { v.text = "ERROR(ttyname_r->EBADF)"; if (c.threads_hi > 1) v.alts.push_back("(none)"); }
        else if (w.tty_stat_errno) v.text = "ERROR(unable to stat() " + w.tty_path + ")";
        else if (name == "tty_uid") v.text = std::to_string(w.tty_uid);
        else v = user_name(w, w.tty_uid, true);
    }
    else if (name == "login") {
        if (!w.login_errno) v.text = w.login_name;
        else { bool f; std::string s = env_lookup(w, "SUDO_USER", f); if (!f) s = env_lookup(w, "LOGNAME", f); v.text = f ? s.substr(0, 254) : "(unknown)"; }
    }
    else if (name == "env") { bool f; std::string s = env_lookup(w, arg, f); v.text = f ? s : "(undefined)"; if (arg.find('=') != std::string::npos || arg.empty()) v.modelled = arg.empty() ? true : false; }
    else if (name == "env_all") { if (!w.environ_null) for (size_t i = 0; i < w.env.size(); i++) { if (i) v.text += ","; v.text += w.env[i]; } }
    else if (name == "filename") v.text = c.op->path;
    else if (name == "cmdline") {
        if (c.op->argv_null || c.op->argv0_null_hidden || c.op->argv.empty()) v.text = c.op->path;
        else for (size_t i = 0; i < c.op->argv.size(); i++) { if (i) v.text += " "; v.text += c.op->argv[i]; }
    }
    else if (name == "snoopy_literal") v.text = arg;
    else if (name == "snoopy_version") v.text = g_snoopy_version;
    else if (name == "snoopy_threads") { v.text = std::to_string(c.threads_lo); for (int k = c.threads_lo + 1; k <= c.threads_hi; k++) v.alts.push_back(std::to_string(k)); if (!g_thread_safe_build) v.known = false; }
    else if (name == "failure") { v.failed = true; v.text = "Artificial datasource failure triggered"; }
    else if (name == "noop") v.text = "";
    else if (name == "timestamp" || name == "timestamp_ms" || name == "timestamp_us") {
        int64_t s, us; if (!next_clock(c, s, us)) { v.modelled = false; return v; }
        char b[32];
        if (name == "timestamp") snprintf(b, sizeof b, "%d", (int)s); else if (name == "timestamp_ms") snprintf(b, sizeof b, "%03d", (int)(us / 1000)); else snprintf(b, sizeof b, "%06d", (int)us);
        v.text = b;
    }
    else if (name == "datetime") {
        int64_t s, us; if (!next_clock(c, s, us)) { v.modelled = false; return v; }
        std::vector<std::string> cands = host_strftime_all(w, arg.empty() ? "%FT%T%z" : arg, s);
        v.text = cands[0]; for (size_t k = 1; k < cands.size(); k++) v.alts.push_back(cands[k]);
    }
    else if (name == "cgroup") {
        if (arg.empty()) { v.failed = true; v.text = "Missing cgroup selection argument"; return v; }
        const Proc *p = w.proc(w.pid);
        if (!p) { v.modelled = false; return v; }
        bool digits = true; for (char ch : arg) if (!isdigit((unsigned char)ch)) digits = false;
        // the file is read in one piece by a reader for small files: 10 KiB or more is refused
        { size_t total = 0; for (auto &l : p->cgroup) total += l.size() + 1;
          if (total >= 10240) { v.failed = true; v.text = "Unable to read file /proc/" + std::to_string(w.pid) + "/cgroup, reason: INTERNAL ERROR: File too large for getSmallTextFileContent()"; return v; } }
        v.text = "(none)";
        for (auto &l : p->cgroup) {
            if (digits) { if (l.compare(0, arg.size() + 1, arg + ":") == 0) { v.text = l; break; } }
            else {
                size_t a = l.find(':'); if (a == std::string::npos) continue;
                size_t b = l.find(':', a + 1); if (b == std::string::npos) continue;
                bool hit = false; for (auto &ctl : split(l.substr(a + 1, b - a - 1), ',', true)) if (ctl == arg) hit = true;
                if (hit) { v.text = l; break; }
            }
        }
    }
    else if (name == "rpname") {
        int p = w.pid; int guard = 0; v.text = "(unknown)";
        while (guard++ < 64) {
            const Proc *pr = w.proc(p);
            if (!pr || pr->status_errno) break;
            if (pr->ppid == 1 || pr->ppid == 0) { v.text = pr->comm; break; }
            p = pr->ppid;
        }
    }
    else if (name == "systemd_unit_name") {
        // "SystemD unit name, as read from /proc/PID/cgroup (from line that starts with 1:name=systemd:...)": init.scope -> init,
        // system.slice/X.service -> X, user.slice/user-UID.slice/... -> user name of UID, an empty path -> "-"
        DsVal cg = model_ds("cgroup", "name=systemd", c);
        if (!cg.modelled || cg.text.size() >= 255) { v.modelled = false; return v; }
        if (cg.failed || cg.text == "(none)") { v.failed = true; v.text = "Cgroup entry 'name=systemd' not found"; return v; }
        const std::string &e = cg.text;
        size_t a = e.find(':'), b = a == std::string::npos ? a : e.find(':', a + 1);
        bool well_formed = b != std::string::npos && b + 1 < e.size() && e[b + 1] == '/';
        std::string rest = well_formed ? e.substr(b + 2) : "";
        bool converted = false;
        if (well_formed) {
            if (rest.empty()) { v.text = "-"; converted = true; }
            else if (rest.compare(0, 10, "init.scope") == 0) { v.text = "init"; converted = true; }
            else if (rest.compare(0, 13, "system.slice/") == 0) {
                std::string u = rest.substr(13); size_t dot = u.find('.');
                v.text = (dot != std::string::npos && u.substr(dot) == ".service") ? u.substr(0, dot) : u; converted = true;
            }
            else if (rest.compare(0, 11, "user.slice/") == 0) {
                std::string u = rest.substr(11); size_t dot = u.find('.');
                if (u.compare(0, 5, "user-") == 0 && dot != std::string::npos) {
                    std::string num = u.substr(5, dot - 5); bool digits = !num.empty() && num.size() <= 9; for (char ch : num) if (!isdigit((unsigned char)ch)) digits = false;
                    if (!digits) { v.modelled = false; return v; }     // what a non-numeric uid field means is not documented
                    uint32_t id = (uint32_t)atol(num.c_str()); const IdName *n = w.pw(id);
                    v.text = n ? n->name.substr(0, 255) : "user-" + std::to_string((int)id); converted = true;
                }
            }
        }
        if (!converted) {   // a layout the converter does not know: the path as it stands, defined for the documented "1:name=systemd:/" prefix only
            if (e.compare(0, 16, "1:name=systemd:/") == 0) v.text = e.substr(16); else v.modelled = false;
        }
    }
    else if (name == "domain") {
        // "Domain of current system": the text that follows "<hostname>." in the first /etc/hosts line (comments removed) containing it
        if (w.hostname.empty()) { v.failed = true; v.text = "Got empty hostname"; return v; }
        if (w.hostname.size() > 63) { v.modelled = false; return v; }
        auto it = w.files.find("/etc/hosts");
        if (it == w.files.end() || it->second.kind != 0 || it->second.open_errno) { v.failed = true; v.text = "Unable to open file for reading: /etc/hosts"; if (it != w.files.end() && it->second.kind != 0) v.modelled = false; return v; }
        const std::string &h = it->second.content; std::string needle = w.hostname + ".";
        for (auto &ch : needle) ch = (char)tolower((unsigned char)ch);
        v.text = "(none)";
        size_t pos = 0;
        while (pos < h.size()) {
            size_t nl = h.find('\n', pos); size_t end = nl == std::string::npos ? h.size() : nl + 1;
            if (end - pos > 1023) end = pos + 1023;                       // the reader takes at most 1023 bytes at a time
            std::string line = h.substr(pos, end - pos); pos = end;
            if (line.find('\0') != std::string::npos) { v.modelled = false; return v; }
            size_t hash = line.find('#'); if (hash != std::string::npos) line.resize(hash);
            std::string low = line; for (auto &ch : low) ch = (char)tolower((unsigned char)ch);
            size_t at = low.find(needle);
            if (at == std::string::npos) continue;
            size_t from = at + needle.size(), to = line.find_first_of(" \t\n\r", at);
            v.text = line.substr(from, to == std::string::npos ? std::string::npos : (to < from ? 0 : to - from));
            break;
        }
    }
    else if (name == "ipaddr") {
        // "IP address of a connected terminal": the address recorded in utmp for the terminal on stdin, "-" when there is none
        v.text = "-";
        if (w.tty_state != 2 || w.tty_path.size() + 1 > 37 || w.tty_path.compare(0, 5, "/dev/") != 0) return v;
        std::string line = w.tty_path.substr(5).substr(0, 31);
        for (auto &u : w.utmp) {
            if (strncmp(u.line.c_str(), line.c_str(), 32) != 0) continue;
            if (!u.addr[0] && !u.addr[1] && !u.addr[2] && !u.addr[3]) return v;
            int32_t raw[4]; for (int k = 0; k < 4; k++) raw[k] = (int32_t)u.addr[k];
            char buf[64] = "";
            if (!u.addr[1] && !u.addr[2] && !u.addr[3]) inet_ntop(AF_INET, &raw[0], buf, sizeof buf); else inet_ntop(AF_INET6, raw, buf, sizeof buf);
            v.text = buf; return v;
        }
    }
    else v.modelled = false;               // snoopy_configure_command
    return v;
}

// ------------------------------------------------------------------ A.4 expansion
Expansion model_expand(const std::string &fmt, long dsmax, long total_max, CallCtx &c) {
    Expansion x;
    std::vector<std::string> outs = {""};
    auto app = [&](const std::string &s) { for (auto &o : outs) o += s; if (!s.empty()) { x.segs.push_back({false, s}); x.cut_total += (long)s.size(); } };
    size_t pos = 0; bool ambiguous_tail = false; std::vector<std::string> stopped;
    while (pos < fmt.size()) {
        size_t t = fmt.find("%{", pos);
        if (t == std::string::npos) { app(fmt.substr(pos)); x.shape += "L"; pos = fmt.size(); break; }
        if (t > pos) { app(fmt.substr(pos, t - pos)); x.shape += "L"; }
        size_t e = fmt.find('}', t);
        if (e == std::string::npos) {
            app("[ERROR: Closing data source tag ('}') not found.]"); x.shape += "U";
            pos = fmt.size(); break;            // nothing after it can be a tag; "continue" would copy the rest verbatim
        }
        std::string tag = fmt.substr(t + 2, e - t - 2);
        size_t col = tag.find(':');
        std::string name = col == std::string::npos ? tag : tag.substr(0, col), arg = col == std::string::npos ? "" : tag.substr(col + 1);
        x.tags++;
        DsVal v = model_ds(name, arg, c);
        if (!v.known) {
            app("[ERROR: Data source '" + name + "' not found.]"); x.shape += "?"; x.segs_ok = false;
            // documentation fixes only the error text: both "stops here" and "continues" are accepted
            for (auto &o : outs) stopped.push_back(o);
            ambiguous_tail = true; pos = e + 1; continue;
        }
        if (!v.modelled) x.modelled = false;
        std::vector<std::string> vals = {v.text}; for (auto &a : v.alts) vals.push_back(a);
        std::vector<std::string> nouts;
        if (vals.size() != 1 || !v.modelled || (v.failed && (long)v.text.size() > dsmax)) x.segs_ok = false;
        else if (v.failed) { std::string t = "[ERROR: Data source '" + name + "' failed with the following error message: '" + v.text + "']"; x.segs.push_back({false, t}); x.cut_total += (long)t.size(); }
        else if ((long)v.text.size() > dsmax) { x.segs.push_back({true, v.text}); x.cut_total += dsmax; }
        else if (!v.text.empty()) { x.segs.push_back({false, v.text}); x.cut_total += (long)v.text.size(); }
        for (auto &val : vals) {
            std::string piece = val;
            if ((long)piece.size() > dsmax) { piece = piece.substr(0, (size_t)dsmax); x.exact = false; x.cut++; }
            if (v.failed) piece = "[ERROR: Data source '" + name + "' failed with the following error message: '" + piece + "']";
            for (auto &o : outs) nouts.push_back(o + piece);
        }
        if (nouts.size() > 4096) nouts.resize(4096);   // 64 thread counts x two answers for each of tty, tty_uid, tty_username have to fit
        outs = nouts;
        x.shape += v.failed ? "F" : (name == "snoopy_literal" ? "S" : name == "env" ? "E" : name == "cmdline" ? "C" : name == "filename" ? "N" : "D");
        pos = e + 1;
    }
    (void)ambiguous_tail;
    x.full = outs[0];
    for (auto &o : outs) if ((long)o.size() > total_max) x.exact = false;
    x.texts = outs;
    for (auto &s : stopped) x.texts.push_back(s);
    return x;
}

// ------------------------------------------------------------------ A.6 outputs
static bool file_sink_usable(const World &w, const std::string &path) {
    if (path.empty()) return false;
    auto it = w.files.find(path);
    if (it != w.files.end()) { if (it->second.open_errno || it->second.kind == 1) return false; if (it->second.kind == 3 && !w.has_ctty) return false; return w.disk_free != 0 || it->second.kind != 0; }   // kind 4 (FIFO with a reader): usable
    size_t k = path.rfind('/'); std::string dir = k == std::string::npos ? "." : k == 0 ? "/" : path.substr(0, k);
    auto d = w.files.find(dir);
    if (d == w.files.end() || d->second.kind != 1 || d->second.open_errno) return false;
    return w.disk_free != 0;
}
static bool sock_usable(const World &w, const std::string &path) {
    auto it = w.socks.find(path);
    if (it == w.socks.end()) return false;
    return it->second.state == 0 && it->second.queued < it->second.capacity;
}

Expected model_call(const World &w, const ExecOp &op, CallCtx &c) {
    Expected x; c.w = &w; c.op = &op;
    x.cfg = model_config(w);
    MCfg &cfg = x.cfg;
    if (!model_filter_chain(cfg.filter_chain, w)) { x.filtered = true; x.log = false; x.sink = "none"; x.why = "filter chain drops"; return x; }
    x.msg = model_expand(cfg.message_format, cfg.dsmax, cfg.logmax, c);
    x.exact = x.msg.exact; x.modelled = x.msg.modelled;
    bool can_be_empty = false, all_empty = true;
    for (auto &t : x.msg.texts) { if (t.empty()) can_be_empty = true; else all_empty = false; }
    if (all_empty && x.exact) { x.log = false; x.sink = "none"; x.why = "empty message"; return x; }
    if (can_be_empty) x.decided = false;
    x.log = true;
    const std::string &o = cfg.output;
    auto framed_nl = [&]() { for (auto &t : x.msg.texts) x.records.push_back(t + "\n"); };
    if (o == "noop") { x.log = false; x.sink = "none"; x.why = "noop output"; }
    else if (o == "stdout") { x.sink = "stdout"; framed_nl(); if (w.stdout_kind == 3) x.sink_usable = false; }   // descriptor closed: nowhere to write to
    else if (o == "stderr") { x.sink = "stderr"; framed_nl(); if (w.stdout_kind == 3) x.sink_usable = false; }
    else if (o == "devnull") { x.sink = "null"; framed_nl(); x.sink_usable = file_sink_usable(w, "/dev/null"); }
    else if (o == "devtty") { x.sink = "tty"; framed_nl(); x.sink_usable = file_sink_usable(w, "/dev/tty"); }
    else if (o == "file") {
        if (cfg.output_arg.empty()) { x.log = false; x.sink = "none"; x.why = "file output without argument"; return x; }
        Expansion p = model_expand(cfg.output_arg, 4095, 4095, c);
        if (!p.exact || !p.modelled || p.texts.size() != 1) { x.decided = false; x.why = "path template outside the exact domain"; }
        x.sink = "file:" + p.texts[0]; framed_nl(); x.sink_usable = file_sink_usable(w, p.texts[0]);
        if (x.sink_usable) { auto it = w.files.find(p.texts[0]); if (it != w.files.end() && it->second.kind == 2) x.sink = "null"; else if (it != w.files.end() && it->second.kind == 3) x.sink = "tty"; }
    }
    else if (o == "socket") {
        std::string path = cfg.output_arg.substr(0, 107);
        x.sink = "sock:" + path; x.records = x.msg.texts; x.sink_usable = sock_usable(w, path);
    }
    else { // devlog (also the default for unknown names)
        Expansion id = model_expand(cfg.ident, 255, 255, c);
        if (!id.exact || !id.modelled) { x.exact = false; }
        x.sink = "sock:/dev/log"; x.sink_usable = sock_usable(w, "/dev/log");
        for (auto &idt : id.texts) for (auto &t : x.msg.texts)
            x.records.push_back("<" + std::to_string(cfg.facility | cfg.level) + ">" + idt.substr(0, 255) + "[" + std::to_string(w.pid) + "]: " + t);
    }
    return x;
}

// ------------------------------------------------------------------ world transitions shared with the simulator
void apply_setconfig(World &w, const Op &op) {
    if (op.cfg_mode == 1) { w.files.erase(SIM_CONFIG_PATH); return; }
    FileNode f; f.content = op.cfg_mode == 0 ? op.cfg : ""; f.open_errno = op.cfg_mode == 2 ? op.cfg_errno : 0; if (op.cfg_file_mode) f.mode = op.cfg_file_mode;
    w.files[SIM_CONFIG_PATH] = f;
}
static void merge_json(J &dst, const J &patch) {
    if (patch.t != J::OBJ || dst.t != J::OBJ) { dst = patch; return; }
    for (auto &p : patch.o) {
        J *d = dst.find(p.first);
        if (d && (p.first == "files" || p.first == "socks") && p.second.t == J::OBJ) {
            for (auto &q : p.second.o) {
                if (q.second.is_null()) { for (size_t k = 0; k < d->o.size(); k++) if (d->o[k].first == q.first) { d->o.erase(d->o.begin() + (long)k); break; } }
                else d->set(q.first, q.second);
            }
        } else dst.set(p.first, p.second);
    }
}
void apply_mutate(World &w, const J &patch) {
    J wj = w.to_json(); merge_json(wj, patch);
    std::string so = w.stdout_bytes, se = w.stderr_bytes, st = w.tty_bytes;
    std::map<std::string, SockNode> keep = w.socks;
    w.from_json(wj);
    for (auto &p : keep) { auto it = w.socks.find(p.first); if (it != w.socks.end()) it->second.received = p.second.received; }
    w.stdout_bytes = so; w.stderr_bytes = se; w.tty_bytes = st;
}

CallCtx make_ctx(const World &w, const ExecOp &op, const RunResult &r, int opi) {
    CallCtx c; c.w = &w; c.op = &op;
    for (auto &e : r.hist) if (e.opi == opi && (e.k == "time" || e.k == "gettimeofday" || e.k == "clock_gettime") && e.err == 0) { c.clock_s.push_back(e.ret); c.clock_us.push_back(e.b); }
    for (auto &o : r.obs) if (o.opi == opi) { c.self_tid = o.self_tid; c.thr = o.thr; }
    return c;
}
