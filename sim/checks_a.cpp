// C01 (pass-through) and C04 (exactly one faithful record).
#include "checks_common.hpp"

// ------------------------------------------------------------------ shared: judge one call against the model (C04 rules)

RecJudge judge_record(const CallView &cv, const RunResult &r, bool require_before_exec) {
    RecJudge j;
    CallCtx ctx = make_ctx(cv.w, *cv.op, r, cv.opi);
    if (cv.batch_threads) ctx.threads_hi = cv.batch_threads;
    Expected e = model_call(cv.w, *cv.op, ctx);
    j.exp = e;
    std::string at = "call #" + std::to_string(cv.opi) + ": ";
    std::vector<Delivery> before = deliveries(r, cv.opi), all = deliveries_all(r, cv.opi);
    j.sig = e.cfg.output + (e.log ? "|log" : e.filtered ? "|drop" : "|none");
    if (!e.modelled || !e.decided) return j;
    j.conclusive = true;
    if (!e.log) {
        for (auto &d : all) if (!d.bytes.empty()) { j.v = bad("record-when-none-expected", at + e.why + ", yet " + std::to_string(d.bytes.size()) + " bytes went to " + d.sink + ": " + show(d.bytes)); return j; }
        return j;
    }
    // nothing may appear at any other sink
    for (auto &d : all) if (d.sink != e.sink && !d.bytes.empty()) { j.v = bad("record-at-wrong-sink", at + "configured sink " + e.sink + ", but " + d.sink + " received " + show(d.bytes)); return j; }
    if (!e.sink_usable) { j.conclusive = false; return j; }
    if (e.sink.compare(0, 5, "sock:") == 0 && !e.records.empty() && e.records[0].size() > 200000) { j.conclusive = false; return j; }   // EMSGSIZE is a fault kind (C03)
    std::vector<const Delivery *> mine, mine_all;
    for (auto &d : before) if (d.sink == e.sink && !d.bytes.empty()) mine.push_back(&d);
    for (auto &d : all) if (d.sink == e.sink && !d.bytes.empty()) mine_all.push_back(&d);
    // stdout/stderr are byte streams: one record may take several writes; compare the concatenation
    std::string got, got_all; for (auto d : mine) got += d->bytes; for (auto d : mine_all) got_all += d->bytes;
    bool stream = e.sink == "stdout" || e.sink == "stderr";
    const ExecObs *ob = obs_of(r, cv.opi);
    size_t pend = ob ? (e.sink == "stdout" ? ob->stdout_pending_at_exec : e.sink == "stderr" ? ob->stderr_pending_at_exec : 0) : 0;
    if (stream && pend) { j.v = bad("record-not-out-before-exec", at + std::to_string(pend) + " bytes of the record were still in a user-space buffer when the real exec was entered (sink " + e.sink + ")"); return j; }
    if (got_all.empty()) {
        if (!e.exact) return j;      // longer than a limit: whether a cut record or none is emitted is not fixed
        j.v = bad("record-missing", at + "no record at " + e.sink + "; expected " + show(e.records.empty() ? "" : e.records[0]));
        return j;
    }
    if (require_before_exec && got != got_all) { j.v = bad("record-not-out-before-exec", at + "record (or part of it) left the process only after the real exec was entered"); return j; }
    auto matches = [&](const std::string &b) { for (auto &x : e.records) if (x == b) return true; return false; };
    if (!e.exact) {
        // only the bounds are fixed: one record, not longer than the limit allows
        if (!stream && !e.cfg.error_logging && mine_all.size() != 1) { j.v = bad("record-count", at + std::to_string(mine_all.size()) + " records at " + e.sink); return j; }
        return j;
    }
    if (stream) {
        if (matches(got_all)) return j;
        if (e.cfg.error_logging) { for (auto &x : e.records) if (got_all.find(x) != std::string::npos) return j; }
        int cnt = 0; for (auto &x : e.records) { size_t p = 0; while ((p = got_all.find(x, p)) != std::string::npos) { cnt++; p += x.size(); } }
        j.v = bad(cnt > 1 ? "record-count" : "record-content", at + "sink " + e.sink + " received " + show(got_all, 200) + " ; expected " + show(e.records[0], 200));
        return j;
    }
    int hit = 0;
    for (auto d : mine_all) if (matches(d->bytes)) hit++;
    if (hit == 1 && (mine_all.size() == 1 || e.cfg.error_logging)) return j;
    if (hit == 0) {
        // for long records: the neighbourhood of the first difference from the closest acceptable text
        const std::string &g = mine_all[0]->bytes; size_t best = 0, bi = 0;
        for (size_t i = 0; i < e.records.size(); i++) { size_t k = 0; while (k < g.size() && k < e.records[i].size() && g[k] == e.records[i][k]) k++; if (k >= best) { best = k; bi = i; } }
        size_t from = best > 60 ? best - 60 : 0;
        j.v = bad("record-content", at + "sink " + e.sink + " received " + show(g, 200) + " ; expected " + show(e.records[0], 200) + (best > 150 ? " ; first difference at byte " + std::to_string(best) + ": got ..." + show(g.substr(from, 160), 160) + " expected ..." + show(e.records[bi].substr(from, 160), 160) : ""));
        return j; }
    j.v = bad("record-count", at + std::to_string(mine_all.size()) + " records at " + e.sink + " (" + std::to_string(hit) + " of them equal to the expected one)");
    return j;
}

// ------------------------------------------------------------------ C01
static Plan gen_c01(uint64_t seed, const std::string &tier) {
    (void)tier;
    Rng r(seed * 1000003 + 101);
    Plan p; p.property = "C01"; p.seed = seed; p.world = gen_world(r);
    // sink states vary too: "regardless of whether anything was logged or dropped"
    if (r.chance(1, 3)) p.world.socks.erase("/dev/log");
    for (int i = 0; i < 3; i++) p.world.socks["/run/snoopy-" + std::to_string(i) + ".sock"] = SockNode();
    int cfgc = (int)r.below(6);
    if (cfgc == 1) p.ops.push_back(op_setconfig(""));
    else if (cfgc == 2) { Op o; o.op = "SetConfig"; o.cfg_mode = 2; o.cfg_errno = 13; p.ops.push_back(o); }
    else if (cfgc >= 3) p.ops.push_back(op_setconfig(gen_known_config(r, p.world)));
    int ncalls = (int)r.range(1, 3);
    for (int i = 0; i < ncalls; i++) {
        int sc = (int)r.below(20); sc = sc < 10 ? 0 : sc < 16 ? 1 : sc < 19 ? 2 : 3;
        ExecOp e = gen_exec(r, "c" + std::to_string(i) + "_", sc);
        gen_outcome(r, e, i == ncalls - 1);
        if (r.chance(1, 3)) {   // sampled I/O faults on the way
            static const char *kinds[] = {"open", "read", "write", "close", "socket", "connect", "send", "stat", "ttyname_r", "getcwd", "getpwuid_r"};
            static const int errs[] = {2, 13, 5, 28, 24, 11, 4, 111};
            int nf = (int)r.range(1, 2);
            for (int k = 0; k < nf; k++) { Fault f; f.kind = kinds[r.below(11)]; f.nth = (int)r.below(3); f.err = errs[r.below(8)]; e.faults.push_back(f); }
        }
        p.ops.push_back(op_exec(e));
    }
    if (g_thread_safe_build && r.chance(1, 4)) {   // the same guarantees hold for calls that other threads of the process make afterwards
        for (auto &o : p.ops) if (o.op == "Exec" && o.ex.success) { o.ex.success = false; o.ex.err = 2; o.ex.ret = -1; }
        Op b; b.op = "Batch";
        int nt = (int)r.range(1, 3);
        for (int t = 0; t < nt; t++) { ExecOp e = gen_exec(r, "t" + std::to_string(t) + "_", 0); gen_outcome(r, e, false); b.threads.push_back({e}); }
        b.policy = 0; b.sched_seed = r.next();
        p.ops.push_back(b);
    }
    return p;
}
static Verdict oracle_c01(const Plan &p, const RunResult &r) {
    for (auto &cv : calls_of(p)) {
        const ExecObs *o = obs_of(r, cv.opi);
        if (!o) { if (cv.opi == 0) return bad("harness", "no observation for call 0"); continue; }
        Verdict v = passthrough_oracle(*cv.op, *o, r);
        if (v.violated) return v;
    }
    return ok();
}
static void describe_c01(const Plan &p, const RunResult &r, J &line) {
    std::string sig; bool nontrivial = false;
    for (auto &cv : calls_of(p)) {
        const ExecObs *o = obs_of(r, cv.opi); if (!o) continue;
        if (o->real_calls > 0) nontrivial = true;
        const ExecOp &e = *cv.op;
        MCfg c = model_config(cv.w);
        sig += std::string(e.api ? "ve" : "v") + (e.argv_null ? "N" : e.argv0_null_hidden ? "H" : e.argv.empty() ? "0" : e.argv.size() >= 1000 ? "K" : "n") + (e.envp_null ? "N" : e.envp.empty() ? "0" : "n") +
               "/" + c.output + (model_filter_chain(c.filter_chain, cv.w) ? "+" : "-") + "/" + (e.success ? "ok" : "e" + std::to_string(e.err / 34)) + (e.faults.empty() ? "" : "F") + ";";
        J pr = J::obj();
        if (e.success) line.set("p_success", true);
        if (!e.success && e.err >= 100) line.set("p_errno_ge_100", true);
        if (e.argv_null) line.set("p_null_argv", true);
        if (e.argv.size() >= 1000) line.set("p_ge_1000_args", true);
        if (!model_filter_chain(c.filter_chain, cv.w)) line.set("p_filter_drop", true);
        if (!o->fired.empty()) line.set("p_io_fault_fired", true);
    }
    line.set("sig", sig); line.set("nontrivial", nontrivial);
}
static Reg reg_c01({"C01", gen_c01, oracle_c01, nullptr, describe_c01});

// ------------------------------------------------------------------ C04
static Plan gen_c04(uint64_t seed, const std::string &tier) {
    (void)tier;
    Rng r(seed * 1000003 + 104);
    Plan p; p.property = "C04"; p.seed = seed; p.world = gen_world(r);
    World &w = p.world;
    for (int i = 0; i < 3; i++) w.socks["/run/snoopy-" + std::to_string(i) + ".sock"] = SockNode();
    if (r.chance(1, 8)) w.socks["/run/snoopy-0.sock"].state = 1;
    if (r.chance(1, 10)) w.socks.erase("/dev/log");
    if (r.chance(1, 6)) { FileNode f; f.content = "earlier line\n"; w.files["/var/log/snoopy.log"] = f; }
    else if (r.chance(1, 6)) { FileNode f; f.kind = 4; f.fifo_free = r.chance(1, 2) ? 0 : (long)r.range(1, 5000); w.files["/var/log/snoopy.log"] = f; }   // FIFO read by a slow log collector
    for (int k = 0; k < 14; k++) if (r.chance(1, 2) && !w.environ_null) w.env.push_back("K" + std::to_string(k) + "=val" + gen_token(r, 0, 40, 0));
    std::string marker = "R" + std::to_string(seed % 100000) + "_";
    CfgSpec s;
    s.has_format = true;
    int mc = (int)r.below(10);
    if (mc == 0) s.format = "";                                            // empty message
    else if (mc == 1) s.format = "%{snoopy_literal:" + gen_token(r, 1, 1, 0) + "}"; // one byte
    else if (mc == 2) s.format = "%{cmdline}";
    else if (mc == 3) s.format = "%{env:BIG}" + marker;
    else s.format = gen_modelled_format(r, marker);
    s.has_output = true; s.output = gen_output_value(r, w);
    if (r.chance(1, 12)) {   // a socket path at and just below the longest a sockaddr_un can carry (107 bytes + NUL)
        static const size_t lens[] = {100, 105, 106, 107}; size_t n = lens[r.below(4)];
        std::string path = "/run/" + std::string(n - 10, 'x') + ".sock"; w.socks[path] = SockNode(); s.output = "socket:" + path;
    }
    if (r.chance(1, 2)) { s.has_chain = true; s.chain = gen_chain(r, w); }
    if (r.chance(2, 3)) { s.has_facility = true; s.facility = std::string(r.chance(1, 3) ? "LOG_" : "") + FAC_NAMES[r.below(20)]; }
    if (r.chance(2, 3)) { s.has_level = true; s.level = LEV_NAMES[r.below(8)]; }
    if (r.chance(1, 2)) { s.has_ident = true; s.ident = r.chance(1, 2) ? "snoopy[%{username}]" : "ident" + gen_token(r, 0, 30, 0); }
    if (r.chance(1, 4)) { s.has_errlog = true; s.errlog = r.chance(1, 2) ? "yes" : "no"; }
    long logmax = 16383, dsmax = 2047;
    if (r.chance(1, 4)) { static const long lm[] = {255, 256, 1000, 65536, 1048575}; logmax = lm[r.below(5)]; s.has_logmax = true; s.logmax = std::to_string(logmax); }
    if (r.chance(1, 4)) { static const long dm[] = {255, 300, 4096, 131072, 1048575}; dsmax = dm[r.below(5)]; s.has_dsmax = true; s.dsmax = std::to_string(dsmax); }
    p.ops.push_back(op_setconfig(s.render(r)));
    if (r.chance(1, 3)) {   // the logged exec is not the first of the process: an earlier one failed (PATH walk, vfork launcher)
        int nprev = (int)r.range(1, 2);
        for (int i = 0; i < nprev; i++) { ExecOp pe = gen_exec(r, "P" + std::to_string(i) + marker, (int)r.below(2)); gen_outcome(r, pe, false); p.ops.push_back(op_exec(pe)); }
    }
    ExecOp e = gen_exec(r, marker, (int)r.below(3));
    if (mc == 2 && !e.argv_null) {   // message of a chosen size, up to the configured maximum
        long cap = logmax < dsmax ? logmax : dsmax; long target = r.chance(1, 3) ? cap : r.chance(1, 2) ? cap - 1 : (long)r.range(1, cap);
        if (target > 150000) target = r.chance(1, 4) ? target : 70000;
        e.argv.clear(); e.argv0_null_hidden = false; e.argv.push_back(marker + gen_token(r, (size_t)(target > (long)marker.size() ? target - (long)marker.size() : 0), (size_t)(target > (long)marker.size() ? target - (long)marker.size() : 0), (int)r.below(3)));
    }
    if (mc == 3 && !w.environ_null) { long cap = logmax < dsmax ? logmax : dsmax; long n = (long)r.range(1, cap > 3000 ? 3000 : cap) - (long)marker.size(); if (n < 1) n = 1; w.env.push_back("BIG=" + gen_token(r, (size_t)n, (size_t)n, 2)); }
    gen_outcome(r, e, true);
    p.ops.push_back(op_exec(e));
    return p;
}
static Verdict oracle_c04(const Plan &p, const RunResult &r) {
    for (auto &cv : calls_of(p)) {
        const ExecObs *o = obs_of(r, cv.opi); if (!o) continue;
        RecJudge j = judge_record(cv, r);
        if (j.v.violated) return j.v;
        if (o->real_calls != 1) return bad("exec-count", "real exec reached " + std::to_string(o->real_calls) + " times");
    }
    return ok();
}
static void describe_c04(const Plan &p, const RunResult &r, J &line) {
    std::string sig; bool nontrivial = false;
    for (auto &cv : calls_of(p)) {
        RecJudge j = judge_record(cv, r);
        if (j.conclusive) nontrivial = true; else line.set("inconclusive", true);
        size_t len = j.exp.msg.full.size();
        sig += j.sig + "|len" + std::to_string(len < 2 ? len : len < 256 ? 2 : len < 4096 ? 3 : len < 65536 ? 4 : 5) + "|fd1:" + std::to_string(cv.w.stdout_kind) + (cv.op->success ? "|ok" : "|fail") +
               "|" + j.exp.msg.shape.substr(0, 12) + "|p" + std::to_string(j.exp.cfg.facility | j.exp.cfg.level) + (j.exp.cfg.ident == "snoopy" ? "" : "i") + (j.exp.cfg.error_logging ? "E" : "") + (j.exp.sink_usable ? "" : "!") + ";";
        line.set("p_output_" + j.exp.cfg.output, true);
        if (j.exp.filtered) line.set("p_drop", true);
        if (!j.exp.log && !j.exp.filtered) line.set("p_empty_or_none", true);
        if (cv.op->success && j.exp.cfg.output == "stdout" && cv.w.stdout_kind != 0) line.set("p_success_stdout_buffered", true);
        if (len >= 65536) line.set("p_msg_ge_64k", true);
        if (!j.exp.sink_usable) line.set("p_sink_unusable", true);
        { auto it = cv.w.files.find("/var/log/snoopy.log"); if (it != cv.w.files.end() && it->second.kind == 4 && j.exp.sink == "file:/var/log/snoopy.log") line.set("p_fifo_slow_reader", true); }
    }
    line.set("sig", sig); line.set("nontrivial", nontrivial);
}
static Reg reg_c04({"C04", gen_c04, oracle_c04, nullptr, describe_c04});
