// The libc seam: definitions in the harness executable that libsnoopy.so's imports
// bind to. Each one is a pass-through unless the calling thread is executing
// library code of a simulated call (t_in_sut && !t_in_sim).
#include "core.hpp"
#include <dlfcn.h>
#include <errno.h>
#include <fcntl.h>
#include <grp.h>
#include <poll.h>
#include <pwd.h>
#include <stdarg.h>
#include <stdio.h>
#include <stdlib.h>
#include <string.h>
#include <sys/auxv.h>
#include <sys/select.h>
#include <sys/socket.h>
#include <sys/stat.h>
#include <sys/syscall.h>
#include <sys/time.h>
#include <sys/uio.h>
#include <syslog.h>
#include <sys/un.h>
#include <time.h>
#include <unistd.h>
#include <utmp.h>
#include <arpa/inet.h>
#include <utmpx.h>
#include <sys/utsname.h>
#include <termios.h>

#define REAL(name) ({ static __typeof__(&name) fp; if (!fp) { t_in_sim++; fp = (__typeof__(&name))dlsym(RTLD_NEXT, #name); t_in_sim--; } fp; })
#define RAW(...) raw_syscall6(__VA_ARGS__)
static inline long rawret(long r) { if (r < 0 && r > -4096) { errno = (int)-r; return -1; } return r; }
#define simfd(fd) ((fd) >= SIMFD_BASE || (sim_active() && (fd) >= 0 && (fd) <= 2))

static void blocks(const char *what) { SimScope s; sim_step(); Ev &e = sim_event(what); e.mark |= MARK_BLOCKS; G.counters["would-block"]++; }

extern "C" {

// ---------------------------------------------------------------- streams / files
FILE *fopen(const char *path, const char *mode) {
    if (!sim_active()) return REAL(fopen)(path, mode);
    SimScope s; return k_fopen(path, mode);
}
FILE *fopen64(const char *path, const char *mode) {
    if (!sim_active()) return REAL(fopen64)(path, mode);
    SimScope s; return k_fopen(path, mode);
}
FILE *fdopen(int fd, const char *mode) {
    if (!sim_active() || !simfd(fd)) return REAL(fdopen)(fd, mode);
    SimScope s; return k_fdopen(fd, mode);
}
int open(const char *path, int flags, ...) {
    int mode = 0; if (flags & (O_CREAT | O_TMPFILE)) { va_list ap; va_start(ap, flags); mode = va_arg(ap, int); va_end(ap); }
    if (!sim_active()) return (int)rawret(RAW(SYS_openat, AT_FDCWD, (long)path, flags, mode, 0, 0));
    SimScope s; int fd = k_open(path, flags, mode); if (fd < 0) { errno = -fd; return -1; } return fd;
}
int open64(const char *path, int flags, ...) {
    int mode = 0; if (flags & (O_CREAT | O_TMPFILE)) { va_list ap; va_start(ap, flags); mode = va_arg(ap, int); va_end(ap); }
    if (!sim_active()) return (int)rawret(RAW(SYS_openat, AT_FDCWD, (long)path, flags, mode, 0, 0));
    SimScope s; int fd = k_open(path, flags, mode); if (fd < 0) { errno = -fd; return -1; } return fd;
}
int openat(int dfd, const char *path, int flags, ...) {
    int mode = 0; if (flags & (O_CREAT | O_TMPFILE)) { va_list ap; va_start(ap, flags); mode = va_arg(ap, int); va_end(ap); }
    if (!sim_active()) return (int)rawret(RAW(SYS_openat, dfd, (long)path, flags, mode, 0, 0));
    SimScope s; int fd = k_open(path, flags, mode); if (fd < 0) { errno = -fd; return -1; } return fd;
}
int creat(const char *path, mode_t mode) {
    if (!sim_active()) return (int)rawret(RAW(SYS_openat, AT_FDCWD, (long)path, O_CREAT | O_WRONLY | O_TRUNC, mode, 0, 0));
    SimScope s; int fd = k_open(path, O_CREAT | O_WRONLY | O_TRUNC, (int)mode); if (fd < 0) { errno = -fd; return -1; } return fd;
}
ssize_t read(int fd, void *buf, size_t n) {
    if (!simfd(fd) || t_in_sim) return rawret(RAW(SYS_read, fd, (long)buf, (long)n, 0, 0, 0));
    SimScope s; long r = k_read(fd, buf, n); if (r < 0) { errno = (int)-r; return -1; } return r;
}
ssize_t write(int fd, const void *buf, size_t n) {
    if (!simfd(fd) || t_in_sim) return rawret(RAW(SYS_write, fd, (long)buf, (long)n, 0, 0, 0));
    SimScope s; long r = k_write(fd, buf, n); if (r < 0) { errno = (int)-r; return -1; } return r;
}
ssize_t writev(int fd, const struct iovec *iov, int cnt) {
    if (!simfd(fd) || t_in_sim) return rawret(RAW(SYS_writev, fd, (long)iov, cnt, 0, 0, 0));
    SimScope s; std::string all; for (int i = 0; i < cnt; i++) all.append((const char *)iov[i].iov_base, iov[i].iov_len);
    long r = k_write(fd, all.data(), all.size()); if (r < 0) { errno = (int)-r; return -1; } return r;
}
static int sim_vdprintf(int fd, const char *fmt, va_list ap) {
    va_list c; va_copy(c, ap); int n = vsnprintf(nullptr, 0, fmt, c); va_end(c);
    if (n < 0) return n;
    SimScope s; std::string buf((size_t)n + 1, '\0'); vsnprintf(&buf[0], (size_t)n + 1, fmt, ap);
    size_t done = 0;                       // glibc's vdprintf goes through a stdio buffer that is flushed with a write loop
    while (done < (size_t)n) { long r = k_write(fd, buf.data() + done, (size_t)n - done); if (r < 0) { errno = (int)-r; return -1; } if (!r) break; done += (size_t)r; }
    return (int)done;
}
int vdprintf(int fd, const char *fmt, va_list ap) {
    if (!simfd(fd) || t_in_sim) return REAL(vdprintf)(fd, fmt, ap);
    return sim_vdprintf(fd, fmt, ap);
}
int dprintf(int fd, const char *fmt, ...) {
    va_list ap; va_start(ap, fmt);
    int r = (!simfd(fd) || t_in_sim) ? REAL(vdprintf)(fd, fmt, ap) : sim_vdprintf(fd, fmt, ap);
    va_end(ap); return r;
}
off_t lseek(int fd, off_t off, int whence) {
    if (!simfd(fd) || t_in_sim) return rawret(RAW(SYS_lseek, fd, off, whence, 0, 0, 0));
    SimScope s; long r = k_lseek(fd, off, whence); if (r < 0) { errno = (int)-r; return -1; } return r;
}
off64_t lseek64(int fd, off64_t off, int whence) { return lseek(fd, off, whence); }
int close(int fd) {
    if (!simfd(fd) || t_in_sim) return (int)rawret(RAW(SYS_close, fd, 0, 0, 0, 0, 0));   // descriptors 0-2 of library code are simulated ones too
    SimScope s; int r = k_close(fd); if (r < 0) { errno = -r; return -1; } return 0;
}
int ftruncate(int fd, off_t len) {
    if (!simfd(fd) || t_in_sim) return (int)rawret(RAW(SYS_ftruncate, fd, (long)len, 0, 0, 0, 0));
    SimScope s; sched_point(SP_IO); sim_step(); Ev &e = sim_event("ftruncate"); e.a = fd; e.b = (long)len;
    auto it = G.fds.find(fd); if (it == G.fds.end()) { errno = EBADF; return -1; }
    auto nt = G.w.files.find(it->second.path); if (nt == G.w.files.end() || nt->second.kind != 0) { errno = EINVAL; return -1; }
    if ((it->second.flags & O_ACCMODE) == O_RDONLY) { errno = EINVAL; return -1; }
    nt->second.content.resize((size_t)(len < 0 ? 0 : len), '\0');
    return 0;
}
int fsync(int fd) {
    if (!simfd(fd) || t_in_sim) return (int)rawret(RAW(SYS_fsync, fd, 0, 0, 0, 0, 0));
    SimScope s; sim_step(); sim_event("fsync").a = fd; return 0;
}
int fdatasync(int fd) {
    if (!simfd(fd) || t_in_sim) return (int)rawret(RAW(SYS_fdatasync, fd, 0, 0, 0, 0, 0));
    SimScope s; sim_step(); sim_event("fsync").a = fd; return 0;
}
int access(const char *path, int mode) {
    if (!sim_active()) return (int)rawret(RAW(SYS_access, (long)path, mode, 0, 0, 0, 0));
    SimScope s; sim_step();
    Ev &e = sim_event("access", path ? path : ""); e.a = mode;
    auto it = G.w.files.find(path ? path : "");
    if (it == G.w.files.end()) { e.ret = -1; e.err = ENOENT; errno = ENOENT; return -1; }
    if (it->second.open_errno == EACCES) { e.ret = -1; e.err = EACCES; errno = EACCES; return -1; }
    return 0;
}
static int sim_stat(const char *path, struct stat *st) {
    SimScope s; sched_point(SP_IO); sim_step();
    std::string p = path ? path : "";
    Fault f; bool faulted = sim_fault("stat", f);
    Ev &e = sim_event("stat", p);
    if (faulted && f.err) { e.ret = -1; e.err = f.err; e.mark |= MARK_FAULT; errno = f.err; return -1; }
    memset(st, 0, sizeof *st);
    if (G.w.tty_state == 2 && p == G.w.tty_path) {
        if (G.w.tty_stat_errno) { e.ret = -1; e.err = G.w.tty_stat_errno; errno = G.w.tty_stat_errno; return -1; }
        st->st_mode = S_IFCHR | 0620; st->st_uid = G.w.tty_uid; st->st_gid = 5; st->st_rdev = 0x8803; st->st_nlink = 1; st->st_blksize = 1024;
        return 0;
    }
    auto it = G.w.files.find(p);
    if (it == G.w.files.end()) { e.ret = -1; e.err = ENOENT; errno = ENOENT; return -1; }
    const FileNode &n = it->second;
    st->st_mode = (n.kind == 1 ? S_IFDIR | 0755 : n.kind >= 2 ? S_IFCHR | 0666 : S_IFREG | (mode_t)(n.mode & 07777));
    st->st_uid = n.uid; st->st_size = (off_t)n.content.size(); st->st_nlink = 1; st->st_blksize = 4096;
    return 0;
}
int stat(const char *path, struct stat *st) {
    if (!sim_active()) return (int)rawret(RAW(SYS_newfstatat, AT_FDCWD, (long)path, (long)st, 0, 0, 0));
    return sim_stat(path, st);
}
int stat64(const char *path, struct stat64 *st) {
    if (!sim_active()) return (int)rawret(RAW(SYS_newfstatat, AT_FDCWD, (long)path, (long)st, 0, 0, 0));
    return sim_stat(path, (struct stat *)st);
}
int lstat(const char *path, struct stat *st) {
    if (!sim_active()) return (int)rawret(RAW(SYS_newfstatat, AT_FDCWD, (long)path, (long)st, AT_SYMLINK_NOFOLLOW, 0, 0));
    return sim_stat(path, st);
}
int __xstat(int ver, const char *path, struct stat *st) {
    (void)ver;
    if (!sim_active()) return (int)rawret(RAW(SYS_newfstatat, AT_FDCWD, (long)path, (long)st, 0, 0, 0));
    return sim_stat(path, st);
}
int fstat(int fd, struct stat *st) {
    if (!simfd(fd) || t_in_sim) return (int)rawret(RAW(SYS_newfstatat, fd, (long)"", (long)st, AT_EMPTY_PATH, 0, 0));
    SimScope s; sim_step();
    auto it = G.fds.find(fd);
    if (it == G.fds.end()) { errno = EBADF; return -1; }
    memset(st, 0, sizeof *st);
    if (it->second.kind == 1) { st->st_mode = S_IFSOCK | 0777; return 0; }
    if (it->second.kind >= 2) { st->st_mode = G.w.stdout_kind == 0 ? (S_IFCHR | 0620) : G.w.stdout_kind == 1 ? (S_IFIFO | 0600) : (S_IFREG | 0644); st->st_blksize = 4096; return 0; }
    auto nt = G.w.files.find(it->second.path);
    st->st_mode = S_IFREG | 0644; st->st_blksize = 4096;
    if (nt != G.w.files.end()) { st->st_size = (off_t)nt->second.content.size(); st->st_uid = nt->second.uid; st->st_mode = S_IFREG | (mode_t)(nt->second.mode & 07777); if (nt->second.kind >= 2) st->st_mode = S_IFCHR | 0666; }
    return 0;
}
int isatty(int fd) {
    if (!sim_active()) return REAL(isatty)(fd);
    SimScope s; sim_step(); sim_event("isatty").a = fd;
    if (fd == 0) { if (G.w.tty_state == 2) return 1; errno = (G.w.tty_state == 1 && !G.fds.count(0)) ? EBADF : ENOTTY; return 0; }
    if (fd == 1 || fd == 2) { if (G.w.stdout_kind == 0) return 1; errno = (G.w.stdout_kind == 3 && !G.fds.count(fd)) ? EBADF : ENOTTY; return 0; }
    errno = ENOTTY; return 0;
}

// ---------------------------------------------------------------- sockets
int socket(int domain, int type, int proto) {
    if (!sim_active()) return (int)rawret(RAW(SYS_socket, domain, type, proto, 0, 0, 0));
    SimScope s; int fd = k_socket(domain, type, proto); if (fd < 0) { errno = -fd; return -1; } return fd;
}
int connect(int fd, const struct sockaddr *addr, socklen_t len) {
    if (!simfd(fd) || t_in_sim) return (int)rawret(RAW(SYS_connect, fd, (long)addr, len, 0, 0, 0));
    SimScope s; int r = k_connect(fd, addr, len); if (r < 0) { errno = -r; return -1; } return 0;
}
ssize_t send(int fd, const void *buf, size_t n, int flags) {
    if (!simfd(fd) || t_in_sim) return rawret(RAW(SYS_sendto, fd, (long)buf, (long)n, flags, 0, 0));
    SimScope s; long r = k_send(fd, buf, n, flags); if (r < 0) { errno = (int)-r; return -1; } return r;
}
ssize_t sendto(int fd, const void *buf, size_t n, int flags, const struct sockaddr *addr, socklen_t alen) {
    if (!simfd(fd) || t_in_sim) return rawret(RAW(SYS_sendto, fd, (long)buf, (long)n, flags, (long)addr, alen));
    SimScope s;
    if (addr) { int c = k_connect(fd, addr, alen); if (c < 0) { errno = -c; return -1; } }
    long r = k_send(fd, buf, n, flags); if (r < 0) { errno = (int)-r; return -1; } return r;
}
ssize_t sendmsg(int fd, const struct msghdr *msg, int flags) {
    if (!simfd(fd) || t_in_sim) return rawret(RAW(SYS_sendmsg, fd, (long)msg, flags, 0, 0, 0));
    SimScope s; std::string all; for (size_t i = 0; i < msg->msg_iovlen; i++) all.append((const char *)msg->msg_iov[i].iov_base, msg->msg_iov[i].iov_len);
    if (msg->msg_name) { int c = k_connect(fd, msg->msg_name, msg->msg_namelen); if (c < 0) { errno = -c; return -1; } }
    long r = k_send(fd, all.data(), all.size(), flags); if (r < 0) { errno = (int)-r; return -1; } return r;
}
static bool locked_by_other_process(int fd);
int fcntl(int fd, int cmd, ...) {
    va_list ap; va_start(ap, cmd); long arg = va_arg(ap, long); va_end(ap);
    if (!simfd(fd) || t_in_sim) return (int)rawret(RAW(SYS_fcntl, fd, cmd, arg, 0, 0, 0));
    SimScope s; sim_step();
    auto it = G.fds.find(fd);
    if (it == G.fds.end()) { errno = EBADF; return -1; }
    if (cmd == F_SETLKW) { t_in_sim--; blocks("fcntl(F_SETLKW)"); t_in_sim++; return 0; }
    if (cmd == F_SETLK) { struct flock *fl = (struct flock *)arg; if (fl && fl->l_type != F_UNLCK && locked_by_other_process(fd)) { errno = EAGAIN; return -1; } return 0; }
    if (cmd == F_GETFL) return (int)(it->second.flags | (it->second.nonblock ? O_NONBLOCK : 0));
    if (cmd == F_SETFL) { it->second.nonblock = (arg & O_NONBLOCK) != 0; it->second.flags = (it->second.flags & ~(long)(O_NONBLOCK | O_APPEND)) | (arg & (O_NONBLOCK | O_APPEND)); return 0; }
    if (cmd == F_GETFD) return it->second.cloexec ? FD_CLOEXEC : 0;
    if (cmd == F_SETFD) { it->second.cloexec = (arg & FD_CLOEXEC) != 0; return 0; }
    return 0;
}

// ---------------------------------------------------------------- identity
uid_t getuid(void) { if (!sim_active()) return (uid_t)RAW(SYS_getuid, 0, 0, 0, 0, 0, 0); SimScope s; sim_step(); sim_event("getuid"); return G.w.uid; }
uid_t geteuid(void) { if (!sim_active()) return (uid_t)RAW(SYS_geteuid, 0, 0, 0, 0, 0, 0); SimScope s; sim_step(); sim_event("geteuid"); return G.w.euid; }
gid_t getgid(void) { if (!sim_active()) return (gid_t)RAW(SYS_getgid, 0, 0, 0, 0, 0, 0); SimScope s; sim_step(); sim_event("getgid"); return G.w.gid; }
gid_t getegid(void) { if (!sim_active()) return (gid_t)RAW(SYS_getegid, 0, 0, 0, 0, 0, 0); SimScope s; sim_step(); sim_event("getegid"); return G.w.egid; }
pid_t getpid(void) { if (!sim_active()) return (pid_t)RAW(SYS_getpid, 0, 0, 0, 0, 0, 0); SimScope s; sim_step(); sim_event("getpid"); return G.w.pid; }
pid_t getppid(void) { if (!sim_active()) return (pid_t)RAW(SYS_getppid, 0, 0, 0, 0, 0, 0); SimScope s; sim_step(); sim_event("getppid"); return G.w.ppid; }
pid_t getsid(pid_t p) { if (!sim_active()) return (pid_t)rawret(RAW(SYS_getsid, p, 0, 0, 0, 0, 0)); SimScope s; sim_step(); sim_event("getsid").a = p; if (p != 0 && p != G.w.pid) { errno = ESRCH; return -1; } return G.w.sid; }
pid_t gettid(void) { if (!sim_active()) return (pid_t)RAW(SYS_gettid, 0, 0, 0, 0, 0, 0); SimScope s; sim_step(); sim_event("gettid"); return G.w.tid_kernel + t_thr; }
int getresuid(uid_t *r, uid_t *e, uid_t *sv) { if (!sim_active()) return (int)rawret(RAW(SYS_getresuid, (long)r, (long)e, (long)sv, 0, 0, 0)); SimScope s; sim_step(); *r = G.w.uid; *e = G.w.euid; *sv = G.w.euid; return 0; }
int getresgid(gid_t *r, gid_t *e, gid_t *sv) { if (!sim_active()) return (int)rawret(RAW(SYS_getresgid, (long)r, (long)e, (long)sv, 0, 0, 0)); SimScope s; sim_step(); *r = G.w.gid; *e = G.w.egid; *sv = G.w.egid; return 0; }

long syscall(long n, ...) {
    va_list ap; va_start(ap, n);
    long a = va_arg(ap, long), b = va_arg(ap, long), c = va_arg(ap, long), d = va_arg(ap, long), e = va_arg(ap, long), f = va_arg(ap, long);
    va_end(ap);
    if (sim_active()) {
        SimScope s; sim_step();
        switch (n) {
        case SYS_gettid: sim_event("gettid"); return G.w.tid_kernel + t_thr;
        case SYS_getpid: return G.w.pid;
        case SYS_getppid: return G.w.ppid;
        case SYS_getuid: return G.w.uid;
        case SYS_geteuid: return G.w.euid;
        case SYS_getgid: return G.w.gid;
        case SYS_getegid: return G.w.egid;
        default: break;
        }
    }
    return rawret(RAW(n, a, b, c, d, e, f));
}

static int fill_pw(const IdName &e, struct passwd *pwd, char *buf, size_t len) {
    size_t need = e.name.size() + 1 + 2 + 1 + 2 + 8 + e.entry_bytes;   // a long gecos field, home directory or shell
    if (len < need) return ERANGE;
    char *p = buf;
    pwd->pw_name = p; memcpy(p, e.name.c_str(), e.name.size() + 1); p += e.name.size() + 1;
    pwd->pw_passwd = p; memcpy(p, "x", 2); p += 2;
    pwd->pw_gecos = p; *p++ = 0;
    pwd->pw_dir = p; memcpy(p, "/", 2); p += 2;
    pwd->pw_shell = p; memcpy(p, "/bin/sh", 8);
    pwd->pw_uid = e.id; pwd->pw_gid = e.id;
    return 0;
}
static int sim_getpwuid_r(uid_t uid, struct passwd *pwd, char *buf, size_t len, struct passwd **res);
int getpwuid_r(uid_t uid, struct passwd *pwd, char *buf, size_t len, struct passwd **res) {
    if (!sim_active()) return REAL(getpwuid_r)(uid, pwd, buf, len, res);
    return sim_getpwuid_r(uid, pwd, buf, len, res);
}
static int sim_getpwuid_r(uid_t uid, struct passwd *pwd, char *buf, size_t len, struct passwd **res) {
    SimScope s; sched_point(SP_IO); sim_step();
    Fault f; bool faulted = sim_fault("getpwuid_r", f);
    Ev &e = sim_event("getpwuid_r"); e.a = uid;
    *res = nullptr;
    if (faulted && f.err) { e.ret = f.err; e.mark |= MARK_FAULT; return f.err; }
    const IdName *n = G.w.pw(uid);
    if (!n) return 0;
    int r = fill_pw(*n, pwd, buf, len); if (r) return r;
    *res = pwd; return 0;
}
struct passwd *getpwuid(uid_t uid) {
    if (!sim_active()) return REAL(getpwuid)(uid);
    static struct passwd pw; static char b[512]; struct passwd *res;   // one buffer for all threads, as in glibc
    { SimScope sc; sim_event("nonreentrant", "getpwuid"); }
    int r = sim_getpwuid_r(uid, &pw, b, sizeof b, &res); if (r) { errno = r; return nullptr; } return res;
}
static int sim_getgrgid_r(gid_t gid, struct group *grp, char *buf, size_t len, struct group **res);
int getgrgid_r(gid_t gid, struct group *grp, char *buf, size_t len, struct group **res) {
    if (!sim_active()) return REAL(getgrgid_r)(gid, grp, buf, len, res);
    return sim_getgrgid_r(gid, grp, buf, len, res);
}
static int sim_getgrgid_r(gid_t gid, struct group *grp, char *buf, size_t len, struct group **res) {
    SimScope s; sched_point(SP_IO); sim_step();
    Fault f; bool faulted = sim_fault("getgrgid_r", f);
    Ev &e = sim_event("getgrgid_r"); e.a = gid;
    *res = nullptr;
    if (faulted && f.err) { e.ret = f.err; e.mark |= MARK_FAULT; return f.err; }
    const IdName *n = G.w.gr(gid);
    if (!n) return 0;
    if (len < n->name.size() + 1 + 2 + sizeof(char *) + 8 + n->entry_bytes) return ERANGE;   // groups have member lists: an entry of a few KB is ordinary
    char *p = buf;
    grp->gr_name = p; memcpy(p, n->name.c_str(), n->name.size() + 1); p += n->name.size() + 1;
    grp->gr_passwd = p; memcpy(p, "x", 2); p += 2;
    p = (char *)(((uintptr_t)p + 7) & ~(uintptr_t)7);
    grp->gr_mem = (char **)p; grp->gr_mem[0] = nullptr;
    grp->gr_gid = n->id;
    *res = grp; return 0;
}
struct group *getgrgid(gid_t gid) {
    if (!sim_active()) return REAL(getgrgid)(gid);
    static struct group gr; static char b[512]; struct group *res;
    { SimScope sc; sim_event("nonreentrant", "getgrgid"); }
    int r = sim_getgrgid_r(gid, &gr, b, sizeof b, &res); if (r) { errno = r; return nullptr; } return res;
}
static int sim_getlogin_r(char *buf, size_t len);
int getlogin_r(char *buf, size_t len) {
    if (!sim_active()) return REAL(getlogin_r)(buf, len);
    return sim_getlogin_r(buf, len);
}
static int sim_getlogin_r(char *buf, size_t len) {
    SimScope s; sched_point(SP_IO); sim_step();
    Fault f; bool faulted = sim_fault("getlogin_r", f);
    Ev &e = sim_event("getlogin_r");
    if (faulted && f.err) { e.ret = f.err; e.mark |= MARK_FAULT; return f.err; }
    if (G.w.login_errno) { e.ret = G.w.login_errno; return G.w.login_errno; }
    if (len < G.w.login_name.size() + 1) return ERANGE;
    sut_write(buf, G.w.login_name.c_str(), G.w.login_name.size() + 1);
    return 0;
}
char *getlogin(void) {
    if (!sim_active()) return REAL(getlogin)();
    { SimScope sc; sim_event("nonreentrant", "getlogin"); }
    static char b[256]; int r = sim_getlogin_r(b, sizeof b); if (r) { errno = r; return nullptr; } return b;
}

// ---------------------------------------------------------------- host, cwd, tty, utmp
int gethostname(char *buf, size_t len) {
    if (!sim_active()) return REAL(gethostname)(buf, len);
    SimScope s; sched_point(SP_IO); sim_step();
    Fault f; bool faulted = sim_fault("gethostname", f);
    Ev &e = sim_event("gethostname"); e.a = (long)len;
    if (faulted && f.err) { e.ret = -1; e.err = f.err; e.mark |= MARK_FAULT; errno = f.err; return -1; }
    size_t n = G.w.hostname.size() + 1;
    if (len < n) { sut_write(buf, G.w.hostname.c_str(), len); errno = ENAMETOOLONG; e.ret = -1; e.err = ENAMETOOLONG; return -1; }
    sut_write(buf, G.w.hostname.c_str(), n);
    return 0;
}
static char *sim_getcwd(char *buf, size_t size);
char *getcwd(char *buf, size_t size) {
    if (!sim_active()) return REAL(getcwd)(buf, size);
    return sim_getcwd(buf, size);
}
int uname(struct utsname *u) {
    if (!sim_active()) return REAL(uname)(u);
    SimScope s; sim_step(); sim_event("uname");
    struct utsname t; memset(&t, 0, sizeof t);
    strcpy(t.sysname, "Linux"); strncpy(t.nodename, G.w.hostname.c_str(), sizeof t.nodename - 1); strcpy(t.release, "6.1.0-sim"); strcpy(t.version, "#1 SMP"); strcpy(t.machine, "x86_64"); strcpy(t.domainname, "(none)");
    sut_write(u, &t, sizeof t);
    return 0;
}
// the magic links of /proc that name the state the data sources report
ssize_t readlink(const char *path, char *buf, size_t len) {
    if (!sim_active()) return rawret(RAW(SYS_readlink, (long)path, (long)buf, (long)len, 0, 0, 0));
    SimScope s; sim_step(); Ev &e = sim_event("readlink", path ? path : "");
    std::string p = path ? path : "", self = "/proc/" + std::to_string(G.w.pid), target; int err = 0;
    if (p.compare(0, self.size() + 1, self + "/") == 0) p = "/proc/self/" + p.substr(self.size() + 1);
    if (p == "/proc/self/cwd") { if (G.w.cwd_errno) target = G.w.cwd + " (deleted)"; else target = G.w.cwd; }
    else if (p == "/proc/self/fd/0") { if (G.w.tty_state == 2) target = G.w.tty_path; else if (G.w.tty_state == 0) target = "pipe:[4242]"; else err = ENOENT; }
    else if (p == "/proc/self/exe") target = "/usr/bin/simulated-caller";
    else err = G.w.files.count(p) ? EINVAL : ENOENT;
    if (err) { errno = err; e.ret = -1; e.err = err; return -1; }
    size_t n = target.size() < len ? target.size() : len;
    sut_write(buf, target.data(), n);
    return (ssize_t)n;
}
pid_t tcgetsid(int fd) {
    if (!sim_active()) return REAL(tcgetsid)(fd);
    SimScope s; sim_step(); sim_event("tcgetsid");
    if (fd != 0 || G.w.tty_state != 2) { errno = G.w.tty_state == 1 || fd != 0 ? EBADF : ENOTTY; return -1; }
    if (!G.w.has_ctty) { errno = ENOTTY; return -1; }
    return (pid_t)G.w.sid;
}
// glibc: $PWD verbatim when it names the same directory as ".", otherwise what the kernel says
char *get_current_dir_name(void) {
    if (!sim_active()) return REAL(get_current_dir_name)();
    std::string pwd; bool same = false;
    {
        SimScope s; sim_step(); sim_event("get_current_dir_name");
        t_in_sim--; const char *v = getenv("PWD"); t_in_sim++;
        if (v && !G.w.cwd_errno) { pwd = v; const std::string &c = G.w.cwd; same = pwd == c || pwd == "." || pwd == c + "/." || pwd == "/proc/self/cwd" || pwd == "/proc/" + std::to_string(G.w.pid) + "/cwd"; }
    }
    if (same) { char *r = (char *)malloc(pwd.size() + 1); if (r) { SimScope s; sut_write(r, pwd.c_str(), pwd.size() + 1); } return r; }
    return sim_getcwd(nullptr, 0);
}
static char *sim_getcwd(char *buf, size_t size) {
    SimScope s; sched_point(SP_IO); sim_step();
    Fault f; bool faulted = sim_fault("getcwd", f);
    Ev &e = sim_event("getcwd"); e.a = (long)size;
    if (faulted && f.err) { e.ret = -1; e.err = f.err; e.mark |= MARK_FAULT; errno = f.err; return nullptr; }
    if (G.w.cwd_errno) { e.ret = -1; e.err = G.w.cwd_errno; errno = G.w.cwd_errno; return nullptr; }
    size_t n = G.w.cwd.size() + 1;
    if (!buf) { t_in_sim--; buf = (char *)malloc(size ? size : n); t_in_sim++; if (!size) size = n; }
    if (size < n) { errno = ERANGE; e.ret = -1; e.err = ERANGE; return nullptr; }
    sut_write(buf, G.w.cwd.c_str(), n);
    return buf;
}
static int sim_ttyname_r(int fd, char *buf, size_t len);
int ttyname_r(int fd, char *buf, size_t len) {
    if (!sim_active()) return REAL(ttyname_r)(fd, buf, len);
    return sim_ttyname_r(fd, buf, len);
}
static int sim_ttyname_r(int fd, char *buf, size_t len) {
    SimScope s; sched_point(SP_IO); sim_step();
    Fault f; bool faulted = sim_fault("ttyname_r", f);
    Ev &e = sim_event("ttyname_r"); e.a = fd; e.b = (long)len;
    if (faulted && f.err) { e.ret = f.err; e.mark |= MARK_FAULT; return f.err; }
    int r = 0;
    if (fd != 0) r = (fd == 1 || fd == 2) ? ENOTTY : EBADF;
    else if (G.w.tty_state == 0) r = ENOTTY;
    else if (G.w.tty_state == 1) r = G.fds.count(0) ? ENOTTY : EBADF;   // descriptor 0 may meanwhile be a file the library itself opened
    else if (len < G.w.tty_path.size() + 1) r = ERANGE;
    else sut_write(buf, G.w.tty_path.c_str(), G.w.tty_path.size() + 1);
    e.ret = r;
    return r;
}
char *ttyname(int fd) {
    if (!sim_active()) return REAL(ttyname)(fd);
    { SimScope sc; sim_event("nonreentrant", "ttyname"); }
    static char b[256]; int r = sim_ttyname_r(fd, b, sizeof b); if (r) { errno = r; return nullptr; } return b;
}
static __thread size_t t_ut_cursor;
void setutent(void) { if (!sim_active()) { REAL(setutent)(); return; } SimScope s; sim_step(); sim_event("setutent"); t_ut_cursor = 0; }
void endutent(void) { if (!sim_active()) { REAL(endutent)(); return; } SimScope s; sim_step(); sim_event("endutent"); t_ut_cursor = 0; }
int utmpname(const char *f) { if (!sim_active()) return REAL(utmpname)(f); SimScope s; sim_step(); sim_event("utmpname", f ? f : ""); return 0; }
static int sim_getutline_r(const struct utmp *line, struct utmp *buf, struct utmp **res);
int getutline_r(const struct utmp *line, struct utmp *buf, struct utmp **res) {
    if (!sim_active()) return REAL(getutline_r)(line, buf, res);
    return sim_getutline_r(line, buf, res);
}
// the non-reentrant and the utmpx spellings of the same lookup (struct utmpx has the layout of struct utmp on Linux)
struct utmp *getutline(const struct utmp *line) {
    if (!sim_active()) return REAL(getutline)(line);
    static struct utmp b; struct utmp *r = nullptr; return sim_getutline_r(line, &b, &r) == 0 ? r : nullptr;   // one buffer for all threads, as in glibc
}
void setutxent(void) { if (!sim_active()) { REAL(setutxent)(); return; } SimScope s; sim_step(); sim_event("setutent"); t_ut_cursor = 0; }
void endutxent(void) { if (!sim_active()) { REAL(endutxent)(); return; } SimScope s; sim_step(); sim_event("endutent"); t_ut_cursor = 0; }
struct utmpx *getutxline(const struct utmpx *line) {
    if (!sim_active()) return REAL(getutxline)(line);
    static struct utmp b; struct utmp *r = nullptr; return sim_getutline_r((const struct utmp *)line, &b, &r) == 0 ? (struct utmpx *)r : nullptr;
}
static int sim_getutent_r(struct utmp *buf, struct utmp **res) {
    SimScope s; sim_step(); Ev &e = sim_event("getutent_r");
    if (t_ut_cursor < G.w.utmp.size()) {
        const UtmpEnt &u = G.w.utmp[t_ut_cursor++];
        struct utmp t; memset(&t, 0, sizeof t); t.ut_type = USER_PROCESS; t.ut_pid = G.w.sid;
        strncpy(t.ut_line, u.line.c_str(), UT_LINESIZE); strncpy(t.ut_user, u.user.c_str(), UT_NAMESIZE);
        for (int k = 0; k < 4; k++) t.ut_addr_v6[k] = (int32_t)u.addr[k];
        sut_write(buf, &t, sizeof t); *res = buf; return 0;
    }
    *res = nullptr; errno = ESRCH; e.ret = -1; e.err = ESRCH; return -1;
}
int getutent_r(struct utmp *buf, struct utmp **res) { if (!sim_active()) return REAL(getutent_r)(buf, res); return sim_getutent_r(buf, res); }
struct utmp *getutent(void) { if (!sim_active()) return REAL(getutent)(); static struct utmp b; struct utmp *r = nullptr; return sim_getutent_r(&b, &r) == 0 ? r : nullptr; }
struct utmpx *getutxent(void) { if (!sim_active()) return REAL(getutxent)(); static struct utmp b; struct utmp *r = nullptr; return sim_getutent_r(&b, &r) == 0 ? (struct utmpx *)r : nullptr; }
static int sim_getutline_r(const struct utmp *line, struct utmp *buf, struct utmp **res) {
    SimScope s; sim_step();
    Fault f; bool faulted = sim_fault("getutline_r", f);
    Ev &e = sim_event("getutline_r", std::string(line->ut_line, strnlen(line->ut_line, UT_LINESIZE)));
    if (faulted && f.err) { *res = nullptr; errno = f.err; e.ret = -1; e.err = f.err; e.mark |= MARK_FAULT; return -1; }   // the utmp file cannot be opened or read
    for (; t_ut_cursor < G.w.utmp.size(); t_ut_cursor++) {
        const UtmpEnt &u = G.w.utmp[t_ut_cursor];
        if (strncmp(u.line.c_str(), line->ut_line, UT_LINESIZE) == 0) {
            struct utmp t; memset(&t, 0, sizeof t);
            t.ut_type = USER_PROCESS; t.ut_pid = G.w.sid;
            strncpy(t.ut_line, u.line.c_str(), UT_LINESIZE); strncpy(t.ut_user, u.user.c_str(), UT_NAMESIZE);
            for (int k = 0; k < 4; k++) t.ut_addr_v6[k] = (int32_t)u.addr[k];
            sut_write(buf, &t, sizeof t);
            *res = buf; t_ut_cursor++; return 0;
        }
    }
    *res = nullptr; errno = ESRCH; e.ret = -1; e.err = ESRCH;
    return -1;
}

// ---------------------------------------------------------------- secure-execution mode
static char *sim_secure_getenv(const char *name) {
    SimScope s; sim_step(); sim_event("secure_getenv", name ? name : "");
    if (G.w.at_secure) return nullptr;
    t_in_sim--; char *v = getenv(name); t_in_sim++;
    return v;
}
char *secure_getenv(const char *name) { if (!sim_active()) return REAL(secure_getenv)(name); return sim_secure_getenv(name); }
char *__secure_getenv(const char *name) { if (!sim_active()) return REAL(secure_getenv)(name); return sim_secure_getenv(name); }
unsigned long getauxval(unsigned long type) {
    if (!sim_active() || type != 23 /* AT_SECURE */) return REAL(getauxval)(type);
    SimScope s; sim_step(); sim_event("getauxval");
    return G.w.at_secure ? 1 : 0;
}

// ---------------------------------------------------------------- clock
time_t time(time_t *t) {
    if (!sim_active()) { struct timespec ts; RAW(SYS_clock_gettime, CLOCK_REALTIME, (long)&ts, 0, 0, 0, 0); if (t) *t = ts.tv_sec; return ts.tv_sec; }
    SimScope s; sim_step();
    Fault f; bool faulted = sim_fault("time", f);
    Ev &e = sim_event("time");
    if (faulted && f.err) { e.ret = -1; e.err = f.err; e.mark |= MARK_FAULT; errno = f.err; return (time_t)-1; }
    time_t v = (time_t)(G.w.clock_us / 1000000); if (t) *t = v; e.ret = (long)v; return v;
}
int gettimeofday(struct timeval *tv, void *tz) {
    if (!sim_active()) { (void)tz; struct timespec ts; RAW(SYS_clock_gettime, CLOCK_REALTIME, (long)&ts, 0, 0, 0, 0); if (tv) { tv->tv_sec = ts.tv_sec; tv->tv_usec = ts.tv_nsec / 1000; } return 0; }
    SimScope s; sim_step();
    Fault f; bool faulted = sim_fault("gettimeofday", f);
    Ev &e = sim_event("gettimeofday");
    if (faulted && f.err) { e.ret = -1; e.err = f.err; e.mark |= MARK_FAULT; errno = f.err; return -1; }
    if (tv) { tv->tv_sec = (time_t)(G.w.clock_us / 1000000); tv->tv_usec = (suseconds_t)(G.w.clock_us % 1000000); }
    e.ret = (long)(G.w.clock_us / 1000000); e.b = (long)(G.w.clock_us % 1000000);
    return 0;
}
int clock_gettime(clockid_t id, struct timespec *ts) {
    if (!sim_active() || (id != CLOCK_REALTIME && id != CLOCK_REALTIME_COARSE)) return (int)rawret(RAW(SYS_clock_gettime, id, (long)ts, 0, 0, 0, 0));
    SimScope s; sim_step(); Ev &e = sim_event("clock_gettime");
    ts->tv_sec = (time_t)(G.w.clock_us / 1000000); ts->tv_nsec = (long)(G.w.clock_us % 1000000) * 1000;
    e.ret = (long)ts->tv_sec; e.b = (long)(G.w.clock_us % 1000000);
    return 0;
}

// ---------------------------------------------------------------- threads
int __compat_mutex_lock(pthread_mutex_t *m);
int __compat_mutex_unlock(pthread_mutex_t *m);
int __compat_mutex_trylock(pthread_mutex_t *m);
int __compat_mutex_init(pthread_mutex_t *m, const pthread_mutexattr_t *a);
int __compat_once(pthread_once_t *o, void (*fn)(void));
__asm__(".symver __compat_mutex_lock,__pthread_mutex_lock@GLIBC_2.2.5");
__asm__(".symver __compat_mutex_unlock,__pthread_mutex_unlock@GLIBC_2.2.5");
__asm__(".symver __compat_mutex_trylock,__pthread_mutex_trylock@GLIBC_2.2.5");
__asm__(".symver __compat_mutex_init,__pthread_mutex_init@GLIBC_2.2.5");
__asm__(".symver __compat_once,__pthread_once@GLIBC_2.2.5");

int pthread_mutex_lock(pthread_mutex_t *m) { if (!sim_active()) return __compat_mutex_lock(m); SimScope s; return sched_mutex_lock(m); }
int pthread_mutex_unlock(pthread_mutex_t *m) { if (!sim_active()) return __compat_mutex_unlock(m); SimScope s; return sched_mutex_unlock(m); }
int pthread_mutex_trylock(pthread_mutex_t *m) { if (!sim_active()) return __compat_mutex_trylock(m); SimScope s; return sched_mutex_trylock(m); }
int pthread_mutex_init(pthread_mutex_t *m, const pthread_mutexattr_t *a) { if (!sim_active()) return __compat_mutex_init(m, a); SimScope s; sim_step(); return sched_mutex_init(m, a); }
// read-write and spin locks: decided by the scheduler too (a real lock held by a parked thread would hang the harness)
int pthread_rwlock_init(pthread_rwlock_t *l, const pthread_rwlockattr_t *a) { if (!sim_active()) return REAL(pthread_rwlock_init)(l, a); SimScope s; sim_step(); return sched_rw_init(l, sizeof *l); }
int pthread_rwlock_rdlock(pthread_rwlock_t *l) { if (!sim_active()) return REAL(pthread_rwlock_rdlock)(l); SimScope s; return sched_rw_lock(l, false, false); }
int pthread_rwlock_wrlock(pthread_rwlock_t *l) { if (!sim_active()) return REAL(pthread_rwlock_wrlock)(l); SimScope s; return sched_rw_lock(l, true, false); }
int pthread_rwlock_tryrdlock(pthread_rwlock_t *l) { if (!sim_active()) return REAL(pthread_rwlock_tryrdlock)(l); SimScope s; return sched_rw_lock(l, false, true); }
int pthread_rwlock_trywrlock(pthread_rwlock_t *l) { if (!sim_active()) return REAL(pthread_rwlock_trywrlock)(l); SimScope s; return sched_rw_lock(l, true, true); }
int pthread_rwlock_unlock(pthread_rwlock_t *l) { if (!sim_active()) return REAL(pthread_rwlock_unlock)(l); SimScope s; return sched_rw_unlock(l); }
int pthread_rwlock_destroy(pthread_rwlock_t *l) { if (!sim_active()) return REAL(pthread_rwlock_destroy)(l); return 0; }
int pthread_spin_init(pthread_spinlock_t *l, int sh) { if (!sim_active()) return REAL(pthread_spin_init)(l, sh); SimScope s; sim_step(); *l = 0; return 0; }
int pthread_spin_lock(pthread_spinlock_t *l) { if (!sim_active()) return REAL(pthread_spin_lock)(l); SimScope s; return sched_rw_lock((void *)((uintptr_t)l | 1), true, false); }
int pthread_spin_trylock(pthread_spinlock_t *l) { if (!sim_active()) return REAL(pthread_spin_trylock)(l); SimScope s; return sched_rw_lock((void *)((uintptr_t)l | 1), true, true); }
int pthread_spin_unlock(pthread_spinlock_t *l) { if (!sim_active()) return REAL(pthread_spin_unlock)(l); SimScope s; return sched_rw_unlock((void *)((uintptr_t)l | 1)); }
int pthread_spin_destroy(pthread_spinlock_t *l) { if (!sim_active()) return REAL(pthread_spin_destroy)(l); return 0; }
int pthread_once(pthread_once_t *o, void (*fn)(void)) {
    if (!sim_active()) return __compat_once(o, fn);
    // the initialiser is library code: it runs with the simulator scope released
    t_in_sim++;
    struct R { ~R() { t_in_sim--; } } r;
    static __thread void (*cur)(void);
    cur = fn;
    return sched_once(o, [] { int keep = t_in_sim; t_in_sim = 0; cur(); t_in_sim = keep; });
}
int __register_atfork(void (*prepare)(void), void (*parent)(void), void (*child)(void), void *dso) {
    if (!sim_active()) return REAL(__register_atfork)(prepare, parent, child, dso);
    SimScope s; sim_step(); sim_event("register_atfork");
    G.atfork.push_back({prepare, parent, child});
    G.counters["atfork-registered"]++;
    return 0;
}

// ---------------------------------------------------------------- stdio calls on the streams all threads share
// Each call takes and releases the stream's lock by itself: between two calls of one thread another thread can put its own bytes into the
// stream. The scheduling point comes before the call, where no lock is held (inside the write callback the lock is held and nobody may be parked).
static void stdio_point(FILE *f) { if (f == stdout || f == stderr) { SimScope s; sched_point(SP_IO); } }
int fputs(const char *str, FILE *f) { if (sim_active()) stdio_point(f); return REAL(fputs)(str, f); }
int fputc(int c, FILE *f) { if (sim_active()) stdio_point(f); return REAL(fputc)(c, f); }
int putc(int c, FILE *f) { if (sim_active()) stdio_point(f); return REAL(putc)(c, f); }
int putchar(int c) { if (sim_active()) stdio_point(stdout); return REAL(fputc)(c, stdout); }
int puts(const char *str) { if (sim_active()) stdio_point(stdout); return REAL(puts)(str); }
size_t fwrite(const void *p, size_t sz, size_t n, FILE *f) { if (sim_active()) stdio_point(f); return REAL(fwrite)(p, sz, n, f); }
int vfprintf(FILE *f, const char *fmt, va_list ap) { if (sim_active()) stdio_point(f); return REAL(vfprintf)(f, fmt, ap); }
int fprintf(FILE *f, const char *fmt, ...) { bool a = sim_active(); va_list ap; va_start(ap, fmt); if (a) stdio_point(f); int r = REAL(vfprintf)(f, fmt, ap); va_end(ap); return r; }
int vprintf(const char *fmt, va_list ap) { if (sim_active()) stdio_point(stdout); return REAL(vfprintf)(stdout, fmt, ap); }
int printf(const char *fmt, ...) { bool a = sim_active(); va_list ap; va_start(ap, fmt); if (a) stdio_point(stdout); int r = REAL(vfprintf)(stdout, fmt, ap); va_end(ap); return r; }
int fflush(FILE *f) { if (sim_active() && f) stdio_point(f); return REAL(fflush)(f); }

// ---------------------------------------------------------------- libc functions that keep their state in one static object
// They run for real; the simulator only makes the hidden state visible: a store to a stand-in object that TSan can see, and a scheduling
// point, so that two threads inside such a function (or between two calls of a strtok sequence) can be interleaved.
static char g_nonreentrant_state[16];
static void nonreentrant(int which, const char *name) { SimScope s; sim_step(); sim_event("nonreentrant", name); char one = 1; sut_write(&g_nonreentrant_state[which], &one, 1); sched_point(SP_IO); }
char *strtok(char *str, const char *delim) { if (!sim_active()) return REAL(strtok)(str, delim); nonreentrant(0, "strtok"); return REAL(strtok)(str, delim); }
struct tm *localtime(const time_t *t) { if (!sim_active()) return REAL(localtime)(t); nonreentrant(1, "localtime"); return REAL(localtime)(t); }
struct tm *gmtime(const time_t *t) { if (!sim_active()) return REAL(gmtime)(t); nonreentrant(1, "gmtime"); return REAL(gmtime)(t); }
char *ctime(const time_t *t) { if (!sim_active()) return REAL(ctime)(t); nonreentrant(2, "ctime"); return REAL(ctime)(t); }
char *asctime(const struct tm *t) { if (!sim_active()) return REAL(asctime)(t); nonreentrant(2, "asctime"); return REAL(asctime)(t); }
char *inet_ntoa(struct in_addr a) { if (!sim_active()) return REAL(inet_ntoa)(a); nonreentrant(3, "inet_ntoa"); return REAL(inet_ntoa)(a); }

// The standard streams are the calling program's objects: their buffer and buffering mode are its state (what it has set up, what it will
// print through next). A wrapped call that reconfigures one of them leaves that behind in the caller - reported like the static objects above.
int setvbuf(FILE *f, char *buf, int mode, size_t size) { if (sim_active() && (f == stdout || f == stderr || f == stdin)) { SimScope s; sim_step(); sim_event("nonreentrant", f == stdout ? "setvbuf(stdout)" : f == stderr ? "setvbuf(stderr)" : "setvbuf(stdin)"); } return REAL(setvbuf)(f, buf, mode, size); }
void setbuf(FILE *f, char *buf) { setvbuf(f, buf, buf ? _IOFBF : _IONBF, BUFSIZ); }
void setbuffer(FILE *f, char *buf, size_t size) { setvbuf(f, buf, buf ? _IOFBF : _IONBF, size); }
void setlinebuf(FILE *f) { setvbuf(f, nullptr, _IOLBF, 0); }

// umask is process-wide and can only be read by writing it: a scheduling point, then the real call (the harness restores it after each run)
mode_t umask(mode_t m) { if (!sim_active()) return (mode_t)RAW(SYS_umask, (long)m, 0, 0, 0, 0, 0); { SimScope s; sim_step(); sim_event("umask"); sched_point(SP_IO); } return (mode_t)RAW(SYS_umask, (long)m, 0, 0, 0, 0, 0); }

// Case mapping follows the LC_CTYPE of the *calling program*. In a Turkish or Azeri locale 'i' and 'I' are not each other's case; the harness
// keeps its own locale and answers the library the way such a process's libc would.
int toupper(int c) { if (sim_active() && G.w.ctype_tr && c == 'i') return 'i'; return REAL(toupper)(c); }
int tolower(int c) { if (sim_active() && G.w.ctype_tr && c == 'I') return 'I'; return REAL(tolower)(c); }
// compiled with optimisation, toupper()/tolower() are table lookups through these two
extern "C" const __int32_t **__ctype_toupper_loc(void) noexcept {
    static __thread const __int32_t *ptr; static __int32_t tab[384]; static bool init = false;
    const __int32_t **real = REAL(__ctype_toupper_loc)();
    if (!(sim_active() && G.w.ctype_tr)) return real;
    if (!init) { for (int i = -128; i < 256; i++) tab[i + 128] = (*real)[i]; tab['i' + 128] = 'i'; init = true; }
    ptr = tab + 128; return &ptr;
}
extern "C" const __int32_t **__ctype_tolower_loc(void) noexcept {
    static __thread const __int32_t *ptr; static __int32_t tab[384]; static bool init = false;
    const __int32_t **real = REAL(__ctype_tolower_loc)();
    if (!(sim_active() && G.w.ctype_tr)) return real;
    if (!init) { for (int i = -128; i < 256; i++) tab[i + 128] = (*real)[i]; tab['I' + 128] = 'I'; init = true; }
    ptr = tab + 128; return &ptr;
}

// ---------------------------------------------------------------- calls that wait for somebody else
unsigned sleep(unsigned n) { if (!sim_active()) return REAL(sleep)(n); blocks("sleep"); return 0; }
int usleep(useconds_t n) { if (!sim_active()) return REAL(usleep)(n); blocks("usleep"); return 0; }
int nanosleep(const struct timespec *a, struct timespec *b) { if (!sim_active()) return (int)rawret(RAW(SYS_nanosleep, (long)a, (long)b, 0, 0, 0, 0)); blocks("nanosleep"); return 0; }
int poll(struct pollfd *f, nfds_t n, int to) { if (!sim_active()) return (int)rawret(RAW(SYS_poll, (long)f, (long)n, to, 0, 0, 0)); if (to != 0) blocks("poll"); return 0; }
int select(int n, fd_set *r, fd_set *w, fd_set *x, struct timeval *tv) { if (!sim_active()) return (int)rawret(RAW(SYS_select, n, (long)r, (long)w, (long)x, (long)tv, 0)); if (!tv || tv->tv_sec || tv->tv_usec) blocks("select"); return 0; }
int fileno(FILE *f) { if (sim_active()) { int fd = k_fileno(f); if (fd >= 0) return fd; } return REAL(fileno)(f); }
int fileno_unlocked(FILE *f) { if (sim_active()) { int fd = k_fileno(f); if (fd >= 0) return fd; } return REAL(fileno_unlocked)(f); }
int flock(int fd, int op) { if (!sim_active()) return (int)rawret(RAW(SYS_flock, fd, op, 0, 0, 0, 0)); if (!simfd(fd)) { if (!(op & 4)) blocks("flock"); return 0; } SimScope s; int r = k_flock(fd, op); if (r < 0) { errno = -r; return -1; } return 0; }
// POSIX record locks: they do not conflict between the threads of one process; what matters is another process holding one
static bool locked_by_other_process(int fd) { auto it = G.fds.find(fd); if (it == G.fds.end()) return false; auto nt = G.w.files.find(it->second.path); return nt != G.w.files.end() && nt->second.locked_by_other; }
int lockf(int fd, int cmd, off_t len) {
    if (!sim_active()) return REAL(lockf)(fd, cmd, len);
    if (!simfd(fd)) { if (cmd == 1) blocks("lockf"); return 0; }
    bool other; { SimScope s; sim_step(); sim_event("lockf").a = cmd; other = locked_by_other_process(fd); }
    if (cmd == 1 /* F_LOCK */) { blocks("lockf"); return 0; }                      // waits for as long as the other process likes
    if ((cmd == 2 /* F_TLOCK */ || cmd == 3 /* F_TEST */) && other) { errno = EAGAIN; return -1; }
    return 0;
}
void openlog(const char *id, int opt, int fac) { if (!sim_active()) { REAL(openlog)(id, opt, fac); return; } SimScope s; sim_step(); sim_event("openlog", id ? id : ""); }
void closelog(void) { if (!sim_active()) { REAL(closelog)(); return; } SimScope s; sim_step(); sim_event("closelog"); }
void syslog(int pri, const char *fmt, ...) {
    va_list ap; va_start(ap, fmt);
    if (!sim_active()) { va_list c; va_copy(c, ap); REAL(vsyslog)(pri, fmt, c); va_end(c); va_end(ap); return; }
    va_end(ap);
    blocks("syslog");   // glibc's syslog() uses a blocking stream/datagram socket to /dev/log
}
void vsyslog(int pri, const char *fmt, va_list ap) { if (!sim_active()) { REAL(vsyslog)(pri, fmt, ap); return; } blocks("syslog"); }

} // extern "C"
