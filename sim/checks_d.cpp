// Schedule- and history-driven checks: C09 (threads), C10 (fork), C11 (configuration histories), C17 (appends).
#include "checks_common.hpp"
#include <algorithm>
#include <fcntl.h>

static std::string marker_of(int i) { return "Tk" + std::to_string(i) + "w8Q3z"; }

// ------------------------------------------------------------------ C09
static const char *C09_LAST[] = {"%{login}", "%{cmdline}", "%{filename}", "%{username}", "%{tty}", "%{env:K1}", "%{datetime:%s}", "%{hostname}", "%{rpname}", "%{cgroup:0}",
    "%{ipaddr}", "%{domain}", "%{systemd_unit_name}", "%{tty_username}", "%{tty_uid}", "%{eusername}", "%{group}", "%{egroup}", "%{cwd}", "%{env_all}", "%{sid}", "%{timestamp_us}", "%{datetime}", "%{ppid}"};
#define C09_NLAST 24
static Plan gen_c09(uint64_t seed, const std::string &tier) {
    Rng r(seed * 1000003 + 109);
    Plan p; p.property = "C09"; p.seed = seed; p.world = gen_world(r);
    World &w = p.world;
    w.socks["/run/snoopy-0.sock"] = SockNode(); w.socks["/run/snoopy-0.sock"].capacity = 1000; w.socks["/dev/log"].capacity = 1000;
    w.has_ctty = true;
    if (r.chance(1, 4)) { w.socks["/run/snoopy-0.sock"].queued = w.socks["/run/snoopy-0.sock"].capacity; w.socks["/dev/log"].queued = w.socks["/dev/log"].capacity; }   // nobody reads the sockets: every send fails
    if (w.environ_null) { w.environ_null = false; }
    if (w.stdout_kind == 3) w.stdout_kind = 0;   // closed standard descriptors are explored single-threaded only (the streams are shared by the harness threads)
    w.env.push_back("K1=envvalue");
    CfgSpec s; s.has_format = true;
    // the data source coming last is rotated so that the scheduling point right after it is an output call
    std::string last = std::string(C09_LAST[r.below(C09_NLAST)]) + " " + C09_LAST[r.below(C09_NLAST)];   // every data source gets its turn under concurrency
    s.format = "%{tid} %{tid_kernel} T%{snoopy_threads}T %{filename} %{cmdline} " + std::string(r.chance(1, 2) ? "%{login} " : "") + last;
    static const char *outs[] = {"file:/log/c09.log", "file:/log/c09-%{tid_kernel}.log", "devlog", "socket:/run/snoopy-0.sock", "stderr", "stdout", "devtty", "devnull"};
    s.has_output = true; s.output = outs[r.below(8)];
    switch (r.below(4)) {
    // uid lists of several entries with the decisive one last: a thread that loses its place in its list decides wrongly
    case 0: s.has_chain = true; s.chain = "exclude_uid:" + std::to_string(w.uid + 1) + "," + std::to_string(w.uid + 2) + "," + std::to_string(w.uid + 3) + ";only_uid:" + std::to_string(w.uid + 7) + "," + std::to_string(w.uid + 8) + "," + std::to_string(w.uid) + ";exclude_spawns_of:nosuch,nosuch2"; break;
    // a chain whose LAST element drops: every call of every thread must stay silent, whatever the other threads do to the walk over the chain
    case 1: s.has_chain = true; s.chain = "exclude_uid:" + std::to_string(w.uid + 1) + ";exclude_spawns_of:nosuch;" + (r.chance(1, 2) ? "only_uid:" + std::to_string(w.uid + 1) + "," + std::to_string(w.uid + 2) : "exclude_uid:" + std::to_string(w.uid + 5) + "," + std::to_string(w.uid + 6) + "," + std::to_string(w.uid)); break;
    default: break;
    }
    p.ops.push_back(op_setconfig(s.render(r, true)));
    Op b; b.op = "Batch";
    bool stress = tier == "thorough" && r.chance(1, 50);
    int nt = stress ? (int)r.range(16, 64) : (int)r.range(2, 4);
    int mk = 0;
    for (int t = 0; t < nt; t++) {
        std::vector<ExecOp> calls; int nc = stress ? 1 : (int)r.range(1, 3);
        for (int c = 0; c < nc; c++) {
            ExecOp e; e.api = (int)r.below(2); std::string m = marker_of(mk++);
            e.path = "/bin/" + m; size_t na = (size_t)r.range(0, 3); e.argv.push_back(m + "a0"); for (size_t k = 0; k < na; k++) e.argv.push_back(m + gen_token(r, 0, 12, 0));
            if (r.chance(1, 10)) { e.argv.clear(); e.argv_null = true; }
            e.success = false; e.err = (int)r.range(1, 40); e.ret = -1;
            if (r.chance(1, 5)) {   // error paths under concurrency: the call is then history (not judged against the model)
                static const char *kinds[] = {"open", "read", "write", "close", "socket", "connect", "send", "getpwuid_r", "ttyname_r", "getlogin_r"};
                Fault f; f.kind = kinds[r.below(10)]; f.nth = (int)r.below(3); f.err = r.chance(1, 2) ? 5 : 13; e.faults.push_back(f);
            }
            calls.push_back(e);
        }
        b.threads.push_back(calls);
    }
    b.policy = (int)r.below(4); b.pct_d = tier == "thorough" ? (int)r.range(1, 3) : (int)r.range(1, 2); b.sched_seed = r.next();
    if (b.policy == 3) b.sched_seed = seed / 4;   // consecutive seeds walk through (thread, park point) systematically
    if (!stress && r.chance(2, 3)) b.app_opens = (int)r.range(4, 24);   // another thread of the program works with descriptors of its own meanwhile
    p.ops.push_back(b);
    // afterwards a lone call must again see exactly one registered thread
    CfgSpec s2; s2.has_format = true; s2.format = "lone T%{snoopy_threads}T %{filename}"; s2.has_output = true; s2.output = "file:/log/lone.log";
    p.ops.push_back(op_setconfig(s2.render(r, true)));
    ExecOp e; e.path = "/bin/" + marker_of(mk); e.argv = {"lone"}; p.ops.push_back(op_exec(e));
    p.extra.set("markers", mk); p.extra.set("threads", nt);
    return p;
}
static Verdict oracle_c09(const Plan &p, const RunResult &r) {
    if (!r.app_damage.empty()) return bad("foreign-descriptor-closed", r.app_damage);
    auto calls = calls_of(p);
    int nmark = (int)p.extra.geti("markers");
    for (auto &cv : calls) {
        const ExecObs *o = obs_of(r, cv.opi); if (!o || o->real_calls == 0) return bad("call-incomplete", "call #" + std::to_string(cv.opi) + " did not reach the real exec");
        Verdict v = passthrough_oracle(*cv.op, *o, r);
        if (v.violated) return v;
        // per-thread state of the caller: each thread runs with its own signal mask and must have it at the real exec and afterwards
        if (o->thr >= 0 && (o->before.sig_sum != o->at_exec.sig_sum || o->before.sig_sum != o->after.sig_sum))
            return bad("thread-signal-mask-changed", "call #" + std::to_string(cv.opi) + " (thread " + std::to_string(o->thr) + "): the signal mask or the dispositions the thread had when it called exec are different " + (o->before.sig_sum != o->at_exec.sig_sum ? "when the real exec is entered" : "after the call"));
        // state that belongs to the whole process: alone, a call leaves it as it found it - so whatever the interleaving, every call finds and leaves
        // what the process had before the batch (a save/set/restore sequence of one thread interleaved with another's does not)
        { const ExecObs *o0 = obs_of(r, calls[0].opi);
          if (o0 && (o->before.umask_v != o0->before.umask_v || o->after.umask_v != o0->before.umask_v || o->at_exec.umask_v != o0->before.umask_v))
              return bad("process-wide-state-raced", "call #" + std::to_string(cv.opi) + " (thread " + std::to_string(o->thr) + "): the umask of the process is not what it was before the calls (before/at exec/after: " + std::to_string(o->before.umask_v) + "/" + std::to_string(o->at_exec.umask_v) + "/" + std::to_string(o->after.umask_v) + ", originally " + std::to_string(o0->before.umask_v) + ")");
          if (o0 && (o->before.cwd != o0->before.cwd || o->after.cwd != o0->before.cwd)) return bad("process-wide-state-raced", "call #" + std::to_string(cv.opi) + ": the working directory of the process changed"); }
        if (cv.op->faults.empty()) {
            RecJudge j = judge_record(cv, r);
            // stdout and stderr are buffers shared by the threads: whoever flushes carries out the records of the others too, so the bytes
            // a call's own writes carry say nothing about that call; those sinks are judged as a whole stream below
            bool shared_stream = cv.batch_threads > 1 && (j.exp.sink == "stdout" || j.exp.sink == "stderr") && (j.v.cls == "record-content" || j.v.cls == "record-count" || j.v.cls == "record-missing" || j.v.cls == "record-not-out-before-exec");
            if (j.v.violated && !shared_stream) { j.v.cls = "thread-" + j.v.cls; return j.v; }
        }
        std::string got; for (auto &d : deliveries_all(r, cv.opi)) got += d.bytes;
        if (cv.batch_threads > 1 && !got.empty() && (got == r.end_world.stdout_bytes.substr(0, got.size()) || r.end_world.stdout_bytes.find(got) != std::string::npos || r.end_world.stderr_bytes.find(got) != std::string::npos)) {
            RecJudge j2 = judge_record(cv, r); if (j2.exp.sink == "stdout" || j2.exp.sink == "stderr") got.clear();   // the markers of other calls are legitimately among the bytes this call flushed
        }
        for (int i = 0; i < nmark; i++) {
            std::string m = marker_of(i);
            if (cv.op->path.find(m) != std::string::npos) continue;
            if (got.find(m) != std::string::npos) return bad("cross-thread-leak", "record of call #" + std::to_string(cv.opi) + " (thread " + std::to_string(o->thr) + ") contains marker " + m + " of another call: " + show(got, 200));
        }
    }
    // byte streams shared by all threads (stdout, stderr, the terminal): what arrived is a sequence of whole records, never one record's
    // bytes inside another's
    for (int which = 0; which < 3; which++) {
        const std::string &stream = which == 0 ? r.end_world.stdout_bytes : which == 1 ? r.end_world.stderr_bytes : r.end_world.tty_bytes;
        const char *sink = which == 0 ? "stdout" : which == 1 ? "stderr" : "tty";
        std::vector<std::vector<std::string>> recs; bool all_known = true;   // per call: the acceptable texts of its record
        for (auto &cv : calls) {
            if (cv.batch_threads <= 1) continue;
            CallCtx ctx = make_ctx(cv.w, *cv.op, r, cv.opi); ctx.threads_hi = cv.batch_threads;
            Expected e = model_call(cv.w, *cv.op, ctx);
            if (e.sink != sink) continue;
            if (!cv.op->faults.empty() || !e.modelled || !e.decided || !e.exact || e.cfg.error_logging) { all_known = false; continue; }
            if (e.log && !e.records.empty()) recs.push_back(e.records);
        }
        if (!all_known || recs.empty()) continue;
        size_t pos = 0; auto todo = recs;
        while (pos < stream.size()) {
            bool hit = false;
            for (size_t i = 0; i < todo.size() && !hit; i++) for (auto &alt : todo[i]) if (!alt.empty() && stream.compare(pos, alt.size(), alt) == 0) { pos += alt.size(); todo.erase(todo.begin() + (long)i); hit = true; break; }
            if (!hit) return bad("stream-records-interleaved", std::string(sink) + " at offset " + std::to_string(pos) + " does not continue with a whole record of one of the calls: " + show(stream.substr(pos, 80)));
        }
        if (!todo.empty()) return bad("stream-record-missing", std::to_string(todo.size()) + " records never arrived at " + sink);
    }
    return ok();
}
static Verdict abort_sched(const Plan &, const RunResult &r) { return bad(r.abort_class, r.abort_detail); }
static void describe_c09(const Plan &p, const RunResult &r, J &line) {
    uint64_t h = 1469598103934665603ULL; for (int c : r.schedule) { char b[4] = {(char)('0' + c % 64), 0}; h = fnv(b, h); }
    char hb[24]; snprintf(hb, sizeof hb, "%016llx", (unsigned long long)h);
    const Op *b = nullptr; for (auto &o : p.ops) if (o.op == "Batch") b = &o;
    line.set("sig", std::string(hb) + "|n" + std::to_string(p.extra.geti("threads")));
    line.set("nontrivial", r.max_overlap >= 2);
    line.set("sched_points", r.sched_points);
    if (b && b->policy == 2 && r.counters.count("long-park-used")) line.set("p_long_park", true);
    if (b && b->policy == 3 && r.counters.count("long-park-used")) line.set("p_park_enumeration", true);
    if (b && b->policy == 1) line.set("p_pct_d" + std::to_string(b->pct_d), true);
    if (r.blocked_on_mutex) line.set("p_blocked_on_mutex", true);
    if (p.extra.geti("threads") >= 16) line.set("p_stress_batch", true);
    for (auto &o : r.obs) if (!o.fired.empty()) line.set("p_fault_under_concurrency", true);
}
static Reg reg_c09({"C09", gen_c09, oracle_c09, abort_sched, describe_c09});

// ------------------------------------------------------------------ C17
static Plan gen_c17(uint64_t seed, const std::string &tier) {
    Rng r(seed * 1000003 + 117);
    Plan p; p.property = "C17"; p.seed = seed; p.world = base_world();
    World &w = p.world; w.has_ctty = true;
    long logmax = r.chance(1, 3) ? 1048575 : r.chance(1, 2) ? 16383 : (long)r.range(255, 70000);
    CfgSpec s; s.has_format = true; s.format = "%{cmdline}"; s.has_logmax = true; s.logmax = std::to_string(logmax); s.has_dsmax = true; s.dsmax = "1048575";
    int oc = (int)r.below(8); std::string path = "/log/c17.log";
    s.has_output = true; s.output = oc == 0 ? "devtty" : oc == 1 ? "devnull" : "file:" + path;
    if (r.chance(2, 3)) { FileNode f; f.content = r.chance(1, 2) ? "old line one\nold line two\n" : gen_token(r, 1, 5000, 0) + "\n"; w.files[path] = f; }
    if (r.chance(1, 4)) w.files[path].locked_by_other = true;   // a writer in another process holds an advisory lock on the log file at this moment: nobody's business, the record is appended all the same
    p.ops.push_back(op_setconfig(s.render(r, true)));
    Op b; b.op = "Batch";
    int nw = (int)r.range(2, tier == "thorough" ? 16 : 6); int mk = 0;
    for (int t = 0; t < nw; t++) {
        std::vector<ExecOp> calls; int nc = (int)r.range(1, tier == "thorough" ? 5 : 3);
        for (int c = 0; c < nc; c++) {
            ExecOp e; e.api = 1; std::string m = marker_of(mk++); e.path = "/bin/w";
            long len;
            switch (r.below(8)) { case 0: len = 1; break; case 1: len = (long)r.range(4090, 4100); break; case 2: len = (long)r.range(8185, 8200); break; case 3: len = logmax; break; case 4: len = (long)r.range(1, logmax); break; default: len = (long)r.range(10, 300); }
            if (len > logmax) len = logmax;
            if (len > 200000) len = r.chance(1, 8) ? len : 66000;
            std::string a = m; if ((long)a.size() > len) a = a.substr(0, (size_t)len); else a += std::string((size_t)(len - (long)a.size()), (char)('a' + mk % 26));
            // a record is whatever the arguments contain: embedded newlines (sh -c with a multi-line script), arbitrary bytes
            if (a.size() > m.size() + 1) switch (r.below(4)) {
            case 0: { int k = (int)r.range(1, 5); for (int q = 0; q < k; q++) a[(size_t)r.range((int64_t)m.size(), (int64_t)a.size() - 1)] = '\n'; if (r.chance(1, 2)) a.back() = '\n'; break; }
            case 1: for (size_t q = m.size(); q < a.size(); q++) if (r.chance(1, 40)) a[q] = (char)r.range(1, 255); break;
            default: break;
            }
            e.argv = {a}; e.success = false; e.err = 2; e.ret = -1;
            if (r.chance(1, 10)) { Fault f; f.kind = r.chance(3, 4) ? "write" : "close"; f.nth = 0; f.err = r.chance(1, 2) ? 28 : 5; e.faults.push_back(f); }   // this writer's own record may be lost or cut - nobody else's
            calls.push_back(e);
        }
        b.threads.push_back(calls);
    }
    b.policy = (int)r.below(2); b.pct_d = (int)r.range(1, 3); b.sched_seed = r.next();
    p.ops.push_back(b);
    p.extra.set("writers", nw); p.extra.set("path", path);
    return p;
}
static Verdict oracle_c17(const Plan &p, const RunResult &r) {
    std::string path = p.extra.gets("path");
    World w0 = p.world; std::string old; auto it = w0.files.find(path); if (it != w0.files.end()) old = it->second.content;
    std::vector<std::string> recs;
    for (auto &cv : calls_of(p)) {
        const ExecObs *o = obs_of(r, cv.opi); if (!o) continue;
        for (auto &d : deliveries_all(r, cv.opi)) {
            if (d.bytes.empty()) continue;
            std::string at = "record of call #" + std::to_string(cv.opi) + " (" + std::to_string(d.bytes.size()) + " bytes) to " + d.sink + ": ";
            if (d.sink.compare(0, 5, "file:") != 0 && d.sink != "tty" && d.sink != "null") continue;
            if (!(d.flags & O_APPEND)) return bad("not-append-mode", at + "descriptor not opened with O_APPEND");
            if (d.flags & O_TRUNC) return bad("truncating-open", at + "descriptor opened with O_TRUNC");
            if (d.writes != 1 && cv.op->faults.empty()) return bad("record-split", at + "delivered with " + std::to_string(d.writes) + " write calls");
            if (d.sink == "file:" + path) recs.push_back(d.bytes);
        }
        if (!cv.op->faults.empty()) continue;   // a writer whose own write or close failed may lose its own record; everybody else's must be there
        RecJudge j = judge_record(cv, r);
        if (j.v.violated) { j.v.cls = "writer-" + j.v.cls; return j.v; }
    }
    // historical: final content = old content followed by a permutation of whole records
    auto fit = r.end_world.files.find(path);
    if (fit != r.end_world.files.end() && !recs.empty()) {
        const std::string &fin = fit->second.content;
        if (fin.compare(0, old.size(), old) != 0) return bad("old-content-damaged", "content that was in the file before is no longer its prefix");
        std::string rest = fin.substr(old.size());
        std::vector<std::string> todo = recs; size_t pos = 0;
        while (pos < rest.size()) {
            bool hit = false;
            for (size_t i = 0; i < todo.size(); i++) if (rest.compare(pos, todo[i].size(), todo[i]) == 0) { pos += todo[i].size(); todo.erase(todo.begin() + (long)i); hit = true; break; }
            if (!hit) return bad("records-interleaved", "file content at offset " + std::to_string(old.size() + pos) + " is not the start of a whole record: " + show(rest.substr(pos, 60)));
        }
        if (!todo.empty()) return bad("record-lost", std::to_string(todo.size()) + " records missing from the file");
    }
    return ok();
}
static void describe_c17(const Plan &p, const RunResult &r, J &line) {
    // signature: interleaving of (writer, syscall) on the log file
    uint64_t h = 1469598103934665603ULL; size_t biggest = 0; bool split_switch = false; int lastthr = -1; long lastdesc = -1;
    for (auto &e : r.hist) if (e.k == "open" || e.k == "write" || e.k == "close") { char b[8]; snprintf(b, sizeof b, "%d%c", e.thr, e.k[0]); h = fnv(b, h); if (e.k == "write" && e.data.size() > biggest) biggest = e.data.size();
        if (e.k == "write") { if (lastdesc >= 0 && lastthr != e.thr) split_switch = split_switch || false; lastthr = e.thr; lastdesc = e.a; } }
    char hb[24]; snprintf(hb, sizeof hb, "%016llx", (unsigned long long)h);
    line.set("sig", std::string(hb)); line.set("nontrivial", r.max_overlap >= 2);
    size_t big = 0; for (auto &o : p.ops) for (auto &t : o.threads) for (auto &c : t) if (!c.argv.empty() && c.argv[0].size() > big) big = c.argv[0].size();
    if (big >= 4096) line.set("p_record_ge_4096", true);
    if (big >= 65536) line.set("p_record_ge_65536", true);
    if (p.extra.geti("writers") >= 16) line.set("p_16_writers", true);
    (void)split_switch;
}
static Reg reg_c17({"C17", gen_c17, oracle_c17, abort_sched, describe_c17});

// ------------------------------------------------------------------ C10
#define C10_SLOTS 160
static Plan gen_c10(uint64_t seed, const std::string &) {
    uint64_t base = seed / C10_SLOTS; int slot = (int)(seed % C10_SLOTS);
    Rng r(base * 1000003 + 110);
    Plan p; p.property = "C10"; p.seed = seed; p.world = gen_world(r); if (p.world.stdout_kind == 3) p.world.stdout_kind = 0;
    World &w = p.world; w.socks["/run/snoopy-0.sock"] = SockNode(); w.has_ctty = true;
    static const char *outs[] = {"file:/log/c10.log", "devlog", "socket:/run/snoopy-0.sock", "stderr", "stdout", "devtty", "devnull"};
    CfgSpec s; s.has_format = true; s.format = "T%{snoopy_threads}T %{filename} %{cmdline} %{username}"; s.has_output = true; s.output = outs[base % 7];
    // whatever a data source or filter locks while thread B is inside it is copied into the child as it is: every data source and the
    // filters take their turn in the format of the family
    s.format += std::string(" ") + C09_LAST[r.below(C09_NLAST)] + " " + C09_LAST[r.below(C09_NLAST)];
    if (r.chance(1, 2)) { s.has_chain = true; s.chain = "exclude_uid:" + std::to_string(w.uid + 1) + "," + std::to_string(w.uid + 2) + ";exclude_spawns_of:nosuch,nosuch2;only_uid:" + std::to_string(w.uid + 3) + "," + std::to_string(w.uid); }
    p.ops.push_back(op_setconfig(s.render(r, true)));
    Op f; f.op = "ForkExec";
    f.ex.path = "/bin/parentB"; f.ex.argv = {"parentB", "x"}; f.ex.success = false; f.ex.err = 2; f.ex.ret = -1;
    f.child_ex.path = "/bin/child"; f.child_ex.argv = {"child", "y"}; f.child_ex.success = r.chance(1, 2); f.child_ex.err = 13; f.child_ex.ret = -1;
    // census: how many scheduling points does B pass inside its call?
    Plan cp = p; Op cf = f; cf.fork_point = 1 << 30; cp.ops.push_back(cf);
    RunResult census = sim_run(cp);
    int N = census.sched_points;
    p.extra.set("census_points", N); p.extra.set("enumeration_complete", N <= C10_SLOTS - 1);
    if (slot > N && slot % 5 == 4) {
        // two threads of the parent fork at the same time (each one or two times) while a third one is inside its own wrapped calls; whatever the
        // fork handlers share is then used by two forks at once. The first call makes the library register its handlers.
        Rng pr(seed * 131 + 5);
        ExecOp first = f.ex; first.path = "/bin/parentInit"; first.argv = {"parentInit"}; p.ops.push_back(op_exec(first));
        Op b; b.op = "Batch"; b.policy = (int)pr.below(2); b.pct_d = 3; b.sched_seed = seed * 977 + 13; b.child_ex = f.child_ex;
        int nf = 2 + (int)pr.below(2);
        for (int t = 0; t < nf + 1; t++) {
            std::vector<ExecOp> calls; int nc = 1 + (int)pr.below(2);
            for (int k = 0; k < nc; k++) { ExecOp x = f.ex; x.path = "/bin/parentF" + std::to_string(t) + "_" + std::to_string(k); x.argv = {"parentF", std::to_string(t)}; if (t < nf) x.forks_before = 1 + (int)pr.below(2); calls.push_back(x); }
            b.threads.push_back(calls);
        }
        p.extra.set("mode", "forkers" + std::to_string(nf));
        p.ops.push_back(b);
        return p;
    }
    if (slot == 0) { f.fork_point = 1 << 30; p.extra.set("mode", "census"); }
    else if (slot <= N) { f.fork_point = slot; p.extra.set("mode", "point"); }
    else {
        Rng pr(seed * 31 + 7); f.fork_point = 1 + (int)pr.below((uint64_t)(N > 0 ? N : 1));
        if (slot % 3 == 0) { f.fork_window = true; p.extra.set("mode", "window"); }   // B runs once more inside the fork window of the forking thread
        else if (slot % 2) { f.grandchild = true; p.extra.set("mode", "grandchild"); }
        else {   // one or two more parent threads parked somewhere inside their own wrapped call at the instant of the fork
            int nx = 1 + (int)pr.below(2);
            for (int i = 0; i < nx; i++) { ExecOp x = f.ex; x.path = "/bin/parentC" + std::to_string(i); x.argv = {"parentC", std::to_string(i)}; f.extra_calls.push_back(x); f.extra_points.push_back(1 + (int)pr.below((uint64_t)(N > 0 ? N : 1))); }
            f.grandchild = pr.chance(1, 3); p.extra.set("mode", "threads" + std::to_string(nx + 1));
        }
    }
    p.ops.push_back(f);
    return p;
}
static Verdict oracle_c10(const Plan &p, const RunResult &r) {
    const J &c = r.child;
    if (c.is_null() && p.extra.gets("mode").compare(0, 7, "forkers") != 0) return bad("harness", "no report from the forked child");
    auto child_ok = [&](const J &rep, const std::string &who) -> Verdict {
        if (!rep.getb("completed")) return bad("child-" + rep.gets("abort_class", "stuck"), who + " cannot finish its exec call: " + rep.gets("abort_detail"));
        if (rep.at("obs").geti("real_calls") != 1) return bad("child-exec-count", who + " reached the real exec " + std::to_string(rep.at("obs").geti("real_calls")) + " times");
        // its record: exactly one, about its own call, and the library sees exactly one thread there (nothing inherited)
        std::string all; int n = 0; for (auto &d : rep.at("deliveries").a) if (!d.gets("bytes").empty()) { all += d.gets("bytes"); n++; }
        if (n != 1) return bad("child-record-count", who + " produced " + std::to_string(n) + " records");
        if (all.find("/bin/child") == std::string::npos) return bad("child-record-content", who + " logged " + show(all));
        if (all.find("T1T ") == std::string::npos) return bad("child-inherited-threads", who + " still sees per-thread state of parent threads that do not exist in it: " + show(all, 60));
        return ok();
    };
    Verdict v;
    if (p.extra.gets("mode").compare(0, 7, "forkers") == 0) {
        // one report per fork that had a child (a fork next to a thread that has just finished is acted out in the parent only)
        for (auto &rep : c.a) { v = child_ok(rep, "child forked by parent thread " + std::to_string(rep.geti("forker"))); if (v.violated) return v; }
    } else {
    v = child_ok(c, "forked child");
    if (v.violated) return v;
    }
    if (c.has("grandchild")) { v = child_ok(c.at("grandchild"), "grandchild"); if (v.violated) return v; }
    // the parent's thread B is unaffected
    for (auto &cv : calls_of(p)) {
        const ExecObs *o = obs_of(r, cv.opi); if (!o) return bad("parent-disturbed", "thread B has no observation");
        v = passthrough_oracle(*cv.op, *o, r); if (v.violated) { v.cls = "parent-" + v.cls; return v; }
        RecJudge j = judge_record(cv, r);
        // stdout/stderr are buffers shared by the parent's threads: whoever flushes carries out the others' records too (see C09)
        bool shared_stream = cv.batch_threads > 1 && (j.exp.sink == "stdout" || j.exp.sink == "stderr") && (j.v.cls == "record-content" || j.v.cls == "record-count" || j.v.cls == "record-missing" || j.v.cls == "record-not-out-before-exec");
        if (j.v.violated && !shared_stream) { j.v.cls = "parent-" + j.v.cls; return j.v; }
    }
    return ok();
}
static Verdict abort_c10(const Plan &, const RunResult &r) { return bad("parent-" + r.abort_class, r.abort_detail); }
static void describe_c10(const Plan &p, const RunResult &r, J &line) {
    const Op &f = p.ops.back();
    // who owned the registry mutex at the fork? (from the child's report: a deadlock names the owner)
    bool forkers = p.extra.gets("mode").compare(0, 7, "forkers") == 0;
    line.set("sig", p.extra.gets("mode") + "|k" + std::to_string(forkers ? (int)(f.sched_seed % 1000) : f.fork_point > 100000 ? -1 : f.fork_point) + "|" + model_config(calls_of(p)[0].w).output);
    line.set("nontrivial", forkers || f.fork_point <= p.extra.geti("census_points"));
    if (forkers) { line.set("p_concurrent_forkers", true); if (r.counters.count("batch-fork-with-child")) line.set("p_concurrent_forkers_with_child", true); }
    if (p.extra.gets("mode") == "census") { line.set("p_census", true); line.set("census_points", p.extra.geti("census_points")); }
    if (p.extra.gets("mode") == "grandchild") line.set("p_grandchild", true);
    if (p.extra.gets("mode") == "window") line.set("p_fork_window", true);
    if (p.extra.gets("mode").compare(0, 7, "threads") == 0) line.set("p_three_or_more_parent_threads", true);
    if (r.counters.count("atfork-registered")) line.set("p_atfork_handlers", true);
    if (r.blocked_on_mutex) line.set("p_forker_waited_for_mutex", true);
}
static Reg reg_c10({"C10", gen_c10, oracle_c10, abort_c10, describe_c10});

// ------------------------------------------------------------------ C11
static std::string c11_config(Rng &r, const World &w, int *cls) {
    int c = (int)r.below(10); if (cls) *cls = c;
    if (c == 0) return "";                                     // emptied
    if (c == 1) return "[snoopy]\n";                           // section only
    if (c == 2) return "garbage without section\n====\n[snoopy\nmessage_format\n";   // corrupted
    CfgSpec s;
    // every option appears with probability 1/2, so that later calls often lack what earlier ones set
    if (r.chance(1, 2)) { s.has_format = true; s.format = "fmt" + std::to_string(r.below(1000)) + " %{filename} %{cmdline}" + (r.chance(1, 3) ? " %{uid}" : ""); }
    // a format that renders to nothing: the call logs nothing - and must leave nothing behind for the calls after it
    if (r.chance(1, 9)) { s.has_format = true; static const char *ef[] = {"", "\"\"", "%{snoopy_literal:}", "%{env:NOSUCHVAR_C11}"}; s.format = ef[r.below(4)]; }
    if (r.chance(1, 2)) { s.has_chain = true; s.chain = r.chance(1, 2) ? "only_uid:" + std::to_string(w.uid) : r.chance(1, 2) ? "exclude_uid:" + std::to_string(w.uid) : "noop;nosuch"; }
    if (r.chance(1, 5)) {   // long lists that differ only far behind their beginning, from one version of the file to the next
        std::string anc = "nosuchancestor"; if (w.procs.size() >= 2) { anc = w.procs[1].comm; for (char ch : anc) if (!isalnum((unsigned char)ch) && ch != '-' && ch != '_') anc = "nosuchancestor"; }
        std::string pfx; for (int k = 0; pfx.size() < 135; k++) pfx += "prog" + std::to_string(k) + "name,";
        static const char *tail[] = {"", "zz", "nosuch1,nosuch2"};
        s.has_chain = true; s.chain = "exclude_spawns_of:" + pfx + (r.chance(1, 2) ? anc : std::string(tail[r.below(3)]));
    }
    if (r.chance(1, 2)) { s.has_output = true; static const char *o[] = {"file:/log/c11-a.log", "file:/log/c11-b.log", "stderr", "stdout", "devlog", "socket:/run/snoopy-0.sock", "devnull", "file", "bogus", "devtty"}; s.output = o[r.below(10)]; }
    if (r.chance(1, 2)) { s.has_facility = true; s.facility = r.chance(1, 6) ? "invalid" : FAC_NAMES[r.below(20)]; }
    if (r.chance(1, 2)) { s.has_level = true; s.level = r.chance(1, 6) ? "invalid" : LEV_NAMES[r.below(8)]; }
    if (r.chance(1, 2)) { s.has_ident = true; s.ident = "ident" + std::to_string(r.below(100)); }
    // settings that make the dispatch of a record fail inside the library (ident or path template larger than its buffer): with error logging on,
    // an error is raised while an error is being reported
    if (r.chance(1, 6)) { s.has_ident = true; s.ident = r.chance(1, 2) ? "ident" + std::string(300, 'i') : "%{cmdline}|%{cmdline}|%{filename}"; if (r.chance(1, 2)) { s.has_output = true; s.output = "devlog"; } }
    if (r.chance(1, 8)) { s.has_output = true; s.output = "file:/log/c11-"; for (int k = 0; k < 14; k++) s.output += "%{cmdline}"; }
    if (r.chance(1, 2)) { s.has_errlog = true; s.errlog = r.chance(2, 3) ? "yes" : r.chance(1, 2) ? "no" : "garbage"; }
    if (r.chance(1, 2)) { s.has_dsmax = true; s.dsmax = r.chance(1, 5) ? "junk" : std::to_string(r.range(255, 400)); }
    if (r.chance(1, 2)) { s.has_logmax = true; s.logmax = r.chance(1, 5) ? "0" : std::to_string(r.range(255, 600)); }
    std::string f = s.render(r, true);
    // the header itself lost or damaged: the options that follow belong to no section (a fresh process ignores them)
    if (r.chance(1, 5)) { size_t nl = f.find('\n'); static const char *hdr[] = {"", "[snoopy\n", "[snoop]\n", "snoopy]\n", "; [snoopy]\n"}; f = std::string(hdr[r.below(5)]) + f.substr(nl + 1); if (r.chance(1, 3)) f = "   " + f; if (cls) *cls = 12; return f; }
    // a damaged file: lines the parser rejects next to options it accepts
    if (r.chance(1, 3)) { static const char *bad[] = {"half edited line\n", "[snoopy\n", "message_format\n", "====\n"}; std::string b = bad[r.below(4)]; size_t at = r.chance(1, 2) ? f.size() : f.find('\n') + 1; f.insert(at, b); if (cls) *cls = 11; }
    return f;
}
static Plan gen_c11(uint64_t seed, const std::string &tier) {
    Rng r(seed * 1000003 + 111);
    Plan p; p.property = "C11"; p.seed = seed; p.world = gen_world(r);
    World &w = p.world; w.socks["/run/snoopy-0.sock"] = SockNode(); w.socks["/run/snoopy-0.sock"].capacity = 1000; w.socks["/dev/log"].capacity = 1000; w.socks["/dev/log"].state = 0; w.has_ctty = true;
    w.clock_step_us = 1;
    int n = (int)r.range(2, tier == "thorough" ? 30 : 8);
    std::string cls;
    for (int i = 0; i < n; i++) {
        int how = (int)r.below(8);
        Op o; o.op = "SetConfig";
        if (how == 0 && i > 0) { o.cfg_mode = 1; cls += "D"; }                         // deleted
        else if (how == 1 && i > 0) { o.cfg_mode = 2; o.cfg_errno = r.chance(1, 2) ? 13 : 5; cls += "U"; } // unreadable
        else if (how == 2 && i > 0) { cls += "="; o.op = ""; }                           // unchanged
        else { int c; o.cfg_mode = 0; o.cfg = c11_config(r, w, &c); cls += c == 11 ? 'B' : c == 12 ? 'H' : (char)('0' + c);
               if (r.chance(1, 8)) { static const int modes[] = {0666, 0664, 0600, 0646, 0444}; o.cfg_file_mode = modes[r.below(5)]; cls += 'M'; } }   // permission bits of the file as written this time
        if (!o.op.empty()) p.ops.push_back(o);
        ExecOp e; e.api = (int)r.below(2); e.path = "/bin/call" + std::to_string(i); size_t L = r.chance(1, 4) ? (size_t)r.range(250, 700) : 5; e.argv = {"a" + std::to_string(i), std::string(L, 'x')};
        e.success = false; e.err = 2; e.ret = -1;
        p.ops.push_back(op_exec(e));
    }
    p.extra.set("classes", cls);
    return p;
}
static std::string deliveries_key(const RunResult &r, int opi) {
    std::string k; for (auto &d : deliveries_all(r, opi)) if (!d.bytes.empty()) k += d.sink + "=" + d.bytes + "\x01"; return k;
}
static Verdict oracle_c11(const Plan &p, const RunResult &r) {
    auto calls = calls_of(p);
    long warm = -1;
    for (auto &cv : calls) {
        const ExecObs *o = obs_of(r, cv.opi); if (!o) continue;
        if (o->real_calls != 1) return bad("exec-count", "call #" + std::to_string(cv.opi) + " reached the real exec " + std::to_string(o->real_calls) + " times");
        if (g_variant[0] == 'a') { if (warm < 0) warm = o->after.lib_live_allocs; else if (o->after.lib_live_allocs > warm) return bad("heap-growth", "after call #" + std::to_string(cv.opi) + " the library holds " + std::to_string(o->after.lib_live_allocs - warm) + " more allocations than after the first call"); }
    }
    std::vector<std::string> long_lived;
    for (auto &cv : calls) long_lived.push_back(deliveries_key(r, cv.opi));
    // differential: the same call as the first call of a pristine process in the same simulated OS state
    for (auto &cv : calls) {
        if (cv.opi == 0) continue;
        Plan fresh; fresh.property = p.property; fresh.seed = p.seed; fresh.world = cv.w; fresh.ops.push_back(op_exec(*cv.op));
        RunResult fr = sim_run(fresh);
        std::string want = deliveries_key(fr, 0);
        if (want != long_lived[(size_t)cv.opi]) {
            std::string cfgs; for (auto &c2 : calls) if (c2.opi < cv.opi) cfgs = model_config(c2.w).output;
            return bad("history-dependent", "call #" + std::to_string(cv.opi) + " after " + std::to_string(cv.opi) + " earlier calls produced [" + show(long_lived[(size_t)cv.opi], 160) + "], as the first call of a fresh process it produces [" + show(want, 160) + "]");
        }
    }
    return ok();
}
static void describe_c11(const Plan &p, const RunResult &, J &line) {
    std::string c = p.extra.gets("classes");
    line.set("sig", c); line.set("nontrivial", c.size() >= 2);
    if (c.find('D') != std::string::npos) line.set("p_deleted", true);
    if (c.find('U') != std::string::npos) line.set("p_unreadable", true);
    if (c.find('2') != std::string::npos) line.set("p_corrupted", true);
    if (c.find('0') != std::string::npos) line.set("p_emptied", true);
    if (c.find('B') != std::string::npos) line.set("p_damaged_with_valid_options", true);
    if (c.find('H') != std::string::npos) line.set("p_header_lost", true);
    if (c.find('M') != std::string::npos) line.set("p_file_mode_varies", true);
}
static Reg reg_c11({"C11", gen_c11, oracle_c11, abort_sched, describe_c11});
