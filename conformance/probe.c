/* marks the window and calls execve through whatever is preloaded */
#include <stdlib.h>
#include <string.h>
#include <unistd.h>
int main(int argc, char **argv) {
    char *av[] = {"true", argc > 1 ? argv[1] : "arg", NULL};
    char *ev[] = {"PATH=/usr/bin:/bin", "K1=v1", NULL};
    if (write(999, "BEGIN", 5)) {}
    execve(getenv("PROBE_TARGET") ? getenv("PROBE_TARGET") : "/bin/true", av, ev);
    if (write(999, "FAILED", 6)) {}
    return 1;
}
